"""S-PROC: the process seam.

Every OS process exactly starts for a test case goes through
`subprocess.call` in util/process_execution/process_executor.py (and the
preprocessor through the one in processing/preprocessor.py).  This module
replaces the name `subprocess` *in those two modules* by an object with the
same surface, so the harness decides what each "child" answers and logs what
it was given.  Nothing under /repo is modified.
"""
import math
import os
import subprocess as _real_subprocess
import types

INF = math.inf


class VirtualHang(BaseException):
    """A child of infinite duration was started without a timeout.
    BaseException: exactly's `except Exception` handlers must not swallow it."""


class Seam:
    def __init__(self):
        self.calls = []
        self.script = {}  # program name -> behaviour dict | callable
        self.default = {}
        self.clock = 0.0
        self.real = False
        self.env_keys = None  # project env on these keys (None: keep whole env)
        self.on_call = None  # optional hook(rec) called at every start (to observe the FS)

    def reset(self):
        self.calls = []
        self.script = {}
        self.default = {}
        self.clock = 0.0
        self.real = False
        self.env_keys = None
        self.on_call = None

    # ---- the subprocess.call replacement ------------------------------
    def call(self, args, stdin=None, stdout=None, stderr=None, env=None,
             timeout=None, shell=False, cwd=None, **kw):
        name = _program_name(args)
        stdin_text = _read_stdin(stdin)
        try:
            here = os.getcwd()
        except OSError as ex:
            here = 'ERR:%s' % ex
        rec = {
            'name': name,
            'args': list(args) if isinstance(args, (list, tuple)) else args,
            'shell': bool(shell),
            'stdin': stdin_text,
            'stdin_kind': _kind(stdin),
            'env': self._project(env),
            'env_inherited': env is None,
            'timeout': timeout,
            'cwd': cwd if cwd is not None else here,
            'cwd_arg': cwd,
            't': self.clock,
            'kw': sorted(kw),
        }
        self.calls.append(rec)
        if self.on_call is not None:
            self.on_call(rec)
        if self.real:
            return self._real_call(rec, args, stdin_text, stdout, stderr, env, timeout, shell, cwd)
        beh = self.script.get(name, self.default)
        if callable(beh):
            beh = beh(rec)
        if beh.get('oserror'):
            raise FileNotFoundError(2, 'No such file or directory', str(args))
        dur = beh.get('dur', 0)
        if timeout is not None and dur > timeout:
            # the child is killed when the timeout expires; what it wrote before is kept
            _write(stdout, beh.get('out_before_timeout', ''))
            self.clock += timeout
            rec['timed_out'] = True
            raise _real_subprocess.TimeoutExpired(args, timeout)
        if dur == INF:
            rec['hang'] = True
            raise VirtualHang('child %r of infinite duration started with timeout=None' % (name,))
        self.clock += dur
        out = beh.get('out', '')
        if beh.get('stdin_to_out') and stdin_text is not None:
            out = out + stdin_text
        if beh.get('echo_args') and not isinstance(args, str):
            out = out + '\n'.join(args[1:]) + '\n'
        _write(stdout, out)
        _write(stderr, beh.get('err', ''))
        fn = beh.get('fn')
        if fn is not None:
            r = fn(rec)
            if r is not None:
                return r
        return beh.get('exit', 0)

    def _project(self, env):
        if env is None:
            return None
        if self.env_keys is None:
            return dict(env)
        return {k: env[k] for k in self.env_keys if k in env}

    def _real_call(self, rec, args, stdin_text, stdout, stderr, env, timeout, shell, cwd):
        import tempfile
        with tempfile.TemporaryFile('w+') as f:
            if stdin_text is not None:
                f.write(stdin_text)
                f.seek(0)
                sin = f
            else:
                sin = _real_subprocess.DEVNULL
            return _real_subprocess.call(args, stdin=sin, stdout=stdout, stderr=stderr, env=env,
                                         timeout=timeout, shell=shell, cwd=cwd)


def _program_name(args):
    if isinstance(args, str):
        parts = args.split()
        return os.path.basename(parts[0]) if parts else ''
    if not args:
        return ''
    return os.path.basename(str(args[0]))


def _kind(f):
    if f is None:
        return 'inherit'
    if isinstance(f, int):
        return 'devnull' if f == _real_subprocess.DEVNULL else 'fd'
    return 'file'


def _read_stdin(stdin):
    if stdin is None:
        return None
    if isinstance(stdin, int):
        if stdin < 0:
            return ''
        chunks = []
        while True:
            b = os.read(stdin, 65536)
            if not b:
                break
            chunks.append(b)
        return b''.join(chunks).decode('utf-8', 'replace')
    if hasattr(stdin, 'read'):
        try:
            data = stdin.read()
        except Exception as ex:  # noqa
            return 'ERR:%r' % (ex,)
        if isinstance(data, bytes):
            data = data.decode('utf-8', 'replace')
        return data
    return 'ERR:unknown stdin %r' % (stdin,)


def _write(f, text):
    if not text or f is None:
        return
    if isinstance(f, int):
        if f >= 0:
            os.write(f, text.encode('utf-8'))
        return
    if hasattr(f, 'fileno'):
        # a real child gets the file *descriptor* (subprocess calls fileno(), which e.g. makes exactly's spooled
        # file roll over to disk): write through it, as the child would
        try:
            fd = f.fileno()
        except Exception:  # noqa  (io.StringIO etc.: no descriptor)
            fd = None
        if fd is not None:
            try:
                f.flush()
            except Exception:  # noqa
                pass
            data = text.encode('utf-8')
            while data:
                n = os.write(fd, data)
                data = data[n:]
            return
    if hasattr(f, 'write'):
        try:
            f.write(text)
        except TypeError:
            f.write(text.encode('utf-8'))
        try:
            f.flush()
        except Exception:  # noqa
            pass


SEAM = Seam()
_installed = False


def install() -> Seam:
    """Replace `subprocess` in the two modules that start processes."""
    global _installed
    from exactly_lib.util.process_execution import process_executor as pe
    from exactly_lib.processing import preprocessor as pp
    shim = types.SimpleNamespace(call=SEAM.call,
                                 TimeoutExpired=_real_subprocess.TimeoutExpired,
                                 DEVNULL=_real_subprocess.DEVNULL,
                                 PIPE=_real_subprocess.PIPE,
                                 STDOUT=_real_subprocess.STDOUT)
    pe.subprocess = shim
    pp.subprocess = shim
    _installed = True
    return SEAM


def uninstall():
    global _installed
    from exactly_lib.util.process_execution import process_executor as pe
    from exactly_lib.processing import preprocessor as pp
    pe.subprocess = _real_subprocess
    pp.subprocess = _real_subprocess
    _installed = False
