"""S-PROC: the process seam.

Every OS process exactly starts for a test case goes through
`subprocess.call` in util/process_execution/process_executor.py (and the
preprocessor through the one in processing/preprocessor.py).  This module
replaces the name `subprocess` *in those two modules* by an object with the
same surface, so the harness decides what each "child" answers and logs what
it was given.  Nothing under /repo is modified.
"""
import math
import os
import subprocess as _real_subprocess
import types

INF = math.inf


class VirtualHang(BaseException):
    """A child of infinite duration was started without a timeout.
    BaseException: exactly's `except Exception` handlers must not swallow it."""


class Seam:
    def __init__(self):
        self.calls = []
        self.script = {}  # program name -> behaviour dict | callable
        self.default = {}
        self.clock = 0.0
        self.real = False
        self.env_keys = None  # project env on these keys (None: keep whole env)
        self.on_call = None  # optional hook(rec) called at every start (to observe the FS)

    def reset(self):
        self.calls = []
        self.script = {}
        self.default = {}
        self.clock = 0.0
        self.real = False
        self.env_keys = None
        self.on_call = None

    # ---- the subprocess replacement: Popen / call / run with the same surface --------------------
    def _start(self, args, stdin, stdout, stderr, env, shell, cwd, timeout, kw):
        name = _program_name(args)
        if timeout is not None and timeout != 'popen':
            # subprocess computes the deadline as a float (time + timeout): an int beyond float range raises OverflowError, a non-number TypeError
            0.0 + timeout
        stdin_text = _read_stdin(stdin)
        try:
            here = os.getcwd()
        except OSError as ex:
            here = 'ERR:%s' % ex
        rec = {
            'name': name,
            'args': list(args) if isinstance(args, (list, tuple)) else args,
            'shell': bool(shell),
            'stdin': stdin_text,
            'stdin_kind': _kind(stdin),
            'env': self._project(env),
            'env_inherited': env is None,
            'timeout': timeout,
            'cwd': cwd if cwd is not None else here,
            'cwd_arg': cwd,
            't': self.clock,
            'kw': sorted(kw),
        }
        self.calls.append(rec)
        if self.on_call is not None:
            self.on_call(rec)
        return rec, stdin_text

    def Popen(self, args, stdin=None, stdout=None, stderr=None, env=None, shell=False, cwd=None, **kw):
        if self.real:
            rec, stdin_text = self._start(args, stdin, stdout, stderr, env, shell, cwd, 'popen', kw)
            return _real_subprocess.Popen(args, stdin=_as_real_stdin(stdin_text), stdout=stdout, stderr=stderr, env=env,
                                          shell=shell, cwd=cwd, **kw)
        return _VPopen(self, args, stdin, stdout, stderr, env, shell, cwd, 'popen', kw)

    def call(self, args, stdin=None, stdout=None, stderr=None, env=None,
             timeout=None, shell=False, cwd=None, **kw):
        if self.real:
            rec, stdin_text = self._start(args, stdin, stdout, stderr, env, shell, cwd, timeout, kw)
            return self._real_call(rec, args, stdin_text, stdout, stderr, env, timeout, shell, cwd)
        p = _VPopen(self, args, stdin, stdout, stderr, env, shell, cwd, timeout, kw)
        try:
            return p.wait(timeout=timeout)
        except _real_subprocess.TimeoutExpired:
            p.kill()  # as subprocess.call does
            p.wait()
            raise

    def run(self, args, stdin=None, input=None, stdout=None, stderr=None, capture_output=False, env=None,
            timeout=None, shell=False, cwd=None, check=False, **kw):
        if capture_output:
            stdout = stderr = _real_subprocess.PIPE
        p = _VPopen(self, args, stdin, stdout, stderr, env, shell, cwd, timeout, kw)
        try:
            out, err = p.communicate(input=input, timeout=timeout)
        except _real_subprocess.TimeoutExpired:
            p.kill()
            p.wait()
            raise
        if check and p.returncode:
            raise _real_subprocess.CalledProcessError(p.returncode, args, out, err)
        return _real_subprocess.CompletedProcess(args, p.returncode, out, err)

    def _project(self, env):
        if env is None:
            return None
        if self.env_keys is None:
            return dict(env)
        return {k: env[k] for k in self.env_keys if k in env}

    def _real_call(self, rec, args, stdin_text, stdout, stderr, env, timeout, shell, cwd):
        import tempfile
        with tempfile.TemporaryFile('w+') as f:
            if stdin_text is not None:
                f.write(stdin_text)
                f.seek(0)
                sin = f
            else:
                sin = _real_subprocess.DEVNULL
            return _real_subprocess.call(args, stdin=sin, stdout=stdout, stderr=stderr, env=env,
                                         timeout=timeout, shell=shell, cwd=cwd)


def _as_real_stdin(stdin_text):
    if stdin_text is None:
        return _real_subprocess.DEVNULL
    import tempfile
    f = tempfile.TemporaryFile('w+')
    f.write(stdin_text)
    f.seek(0)
    return f


class _VPopen:
    """A virtual child process under the virtual clock.  Behaviour keys: out, err, exit, dur, oserror, stdin_to_out,
    echo_args, fn, ignore_term (SIGTERM has no effect), out_before_timeout."""
    _next_pid = [100000]

    def __init__(self, seam, args, stdin, stdout, stderr, env, shell, cwd, timeout, kw):
        self.seam = seam
        self.args = args
        self.rec, self.stdin_text = seam._start(args, stdin, stdout, stderr, env, shell, cwd, timeout, kw)
        beh = seam.script.get(self.rec['name'], seam.default)
        if callable(beh):
            beh = beh(self.rec)
        self.beh = beh
        if beh.get('oserror'):
            raise FileNotFoundError(2, 'No such file or directory', str(args))
        self._stdout, self._stderr = stdout, stderr
        self._remaining = beh.get('dur', 0)
        self.returncode = None
        _VPopen._next_pid[0] += 1
        self.pid = _VPopen._next_pid[0]
        self.stdin = self.stdout = self.stderr = None
        self._captured = ['', '']
        self._reading = False   # True while the parent drains the pipes (communicate)
        self._text = bool(kw.get('text') or kw.get('universal_newlines') or kw.get('encoding'))

    def __enter__(self):
        return self

    def __exit__(self, exc_type, value, tb):
        self.wait()  # as subprocess.Popen.__exit__: waits without limit

    def poll(self):
        return self.returncode

    def wait(self, timeout=None):
        if self.returncode is not None:
            return self.returncode
        if self.rec['timeout'] == 'popen':
            self.rec['timeout'] = timeout  # the limit of the first wait is the timeout the process runs under
        if not self._reading and self._remaining != INF:
            # a pipe that nobody reads holds PIPE_CAPACITY bytes: a child that writes more blocks in write() for ever (as with the real
            # subprocess.call(stdout=PIPE) / Popen.wait(): the documented dead-lock)
            for handle, key in ((self._stdout, 'out'), (self._stderr, 'err')):
                if handle == _real_subprocess.PIPE and len(self.beh.get(key, '').encode('utf-8', 'replace')) > PIPE_CAPACITY:
                    self.rec['blocked_on_unread_pipe'] = key
                    self._remaining = INF
        if timeout is not None and self._remaining > timeout:
            self.seam.clock += timeout
            if self._remaining != INF:
                self._remaining -= timeout
            self.rec['timed_out'] = True
            raise _real_subprocess.TimeoutExpired(self.args, timeout)
        if self._remaining == INF:
            self.rec['hang'] = True
            raise VirtualHang('waiting without limit for child %r, which never ends' % (self.rec['name'],))
        self.seam.clock += self._remaining
        self._remaining = 0
        self._finish()
        return self.returncode

    def _finish(self):
        beh, rec = self.beh, self.rec
        out = beh.get('out', '')
        if beh.get('stdin_to_out') and self.stdin_text is not None:
            out = out + self.stdin_text
        if beh.get('echo_args') and not isinstance(self.args, str):
            out = out + '\n'.join(self.args[1:]) + '\n'
        self._emit(0, self._stdout, out)
        self._emit(1, self._stderr, beh.get('err', ''))
        self.returncode = beh.get('exit', 0)
        fn = beh.get('fn')
        if fn is not None:
            r = fn(rec)
            if r is not None:
                self.returncode = r

    def _emit(self, i, handle, text):
        if handle == _real_subprocess.PIPE:
            self._captured[i] += text
        elif handle == _real_subprocess.STDOUT and i == 1:
            self._emit(0, self._stdout, text)
        else:
            _write(handle, text)

    def communicate(self, input=None, timeout=None):
        self._reading = True
        self.wait(timeout=timeout)
        conv = (lambda x: x) if self._text else (lambda x: x.encode('utf-8'))
        return (conv(self._captured[0]) if self._stdout == _real_subprocess.PIPE else None,
                conv(self._captured[1]) if self._stderr == _real_subprocess.PIPE else None)

    def _die(self, code):
        if self.returncode is None:
            self._emit(0, self._stdout, self.beh.get('out_before_timeout', ''))
            self.returncode = code
            self._remaining = 0
            self.rec['killed'] = code

    def terminate(self):
        self.send_signal(15)

    def kill(self):
        self.send_signal(9)

    def send_signal(self, sig):
        if sig == 15 and self.beh.get('ignore_term'):
            self.rec['sigterm_ignored'] = True
            return
        self._die(-sig)


PIPE_CAPACITY = 65536


def _program_name(args):
    if isinstance(args, str):
        parts = args.split()
        return os.path.basename(parts[0]) if parts else ''
    if not args:
        return ''
    return os.path.basename(str(args[0]))


import os as _os
_STRICT_HANDLES = _os.environ.get('VERIF_SEAM_LENIENT') != '1'


def _kind(f):
    if f is None:
        return 'inherit'
    if isinstance(f, int):
        return 'devnull' if f == _real_subprocess.DEVNULL else 'fd'
    return 'file'


def _read_stdin(stdin):
    if stdin is None:
        # the child inherits the parent's descriptor 0 (whatever it reads is taken from the parent's own standard input)
        try:
            chunks = []
            while True:
                b = os.read(0, 65536)
                if not b:
                    break
                chunks.append(b)
            return b''.join(chunks).decode('utf-8', 'replace')
        except OSError:
            return None
    if isinstance(stdin, int):
        if stdin < 0:
            return ''
        chunks = []
        while True:
            b = os.read(stdin, 65536)
            if not b:
                break
            chunks.append(b)
        return b''.join(chunks).decode('utf-8', 'replace')
    if hasattr(stdin, 'fileno'):
        # a real child reads the file *descriptor* from its current OS-level offset: raw bytes, no newline translation,
        # nothing of what the parent's file object has buffered but not flushed
        if _STRICT_HANDLES:
            fd = stdin.fileno()  # subprocess calls fileno() on a file object; one without a descriptor makes Popen raise
        else:
            try:
                fd = stdin.fileno()
            except Exception:  # noqa  (io.StringIO etc.: no descriptor)
                fd = None
        if fd is not None:
            chunks = []
            while True:
                b = os.read(fd, 65536)
                if not b:
                    break
                chunks.append(b)
            return b''.join(chunks).decode('utf-8', 'replace')
    if hasattr(stdin, 'read'):
        try:
            data = stdin.read()
        except Exception as ex:  # noqa
            return 'ERR:%r' % (ex,)
        if isinstance(data, bytes):
            data = data.decode('utf-8', 'replace')
        return data
    return 'ERR:unknown stdin %r' % (stdin,)


def _write(f, text):
    if not text or f is None:
        return
    if isinstance(f, int):
        if f >= 0:
            os.write(f, text.encode('utf-8', 'surrogateescape'))
        return
    if hasattr(f, 'fileno'):
        # a real child gets the file *descriptor* (subprocess calls fileno(), which e.g. makes exactly's spooled
        # file roll over to disk): write through it, as the child would
        if _STRICT_HANDLES and not getattr(f, '_verif_harness_sink', False):
            fd = f.fileno()  # as subprocess does: a file object without a descriptor makes Popen raise
        else:
            try:
                fd = f.fileno()
            except Exception:  # noqa  (the harness's own StringIO stdout / stderr of the main program)
                fd = None
        if fd is not None:
            # NO flush of the parent's file object: subprocess does not flush it either, so text the parent has written to `f`
            # but not flushed lands AFTER what the child writes (found as KF-C10-STDOUT-ORDER when an earlier flush here hid it)
            data = text.encode('utf-8', 'surrogateescape')   # lone surrogates (\udc80..\udcff) stand for raw bytes: output that is not UTF-8
            while data:
                n = os.write(fd, data)
                data = data[n:]
            return
    if hasattr(f, 'write'):
        try:
            f.write(text)
        except TypeError:
            f.write(text.encode('utf-8'))
        try:
            f.flush()
        except Exception:  # noqa
            pass


SEAM = Seam()
_installed = False


def install() -> Seam:
    """Replace `subprocess` in the two modules that start processes."""
    global _installed
    from exactly_lib.util.process_execution import process_executor as pe
    from exactly_lib.processing import preprocessor as pp
    shim = types.SimpleNamespace(call=SEAM.call, Popen=SEAM.Popen, run=SEAM.run,
                                 CalledProcessError=_real_subprocess.CalledProcessError,
                                 CompletedProcess=_real_subprocess.CompletedProcess,
                                 SubprocessError=_real_subprocess.SubprocessError,
                                 TimeoutExpired=_real_subprocess.TimeoutExpired,
                                 DEVNULL=_real_subprocess.DEVNULL,
                                 PIPE=_real_subprocess.PIPE,
                                 STDOUT=_real_subprocess.STDOUT)
    pe.subprocess = shim
    pp.subprocess = shim
    _installed = True
    return SEAM


def uninstall():
    global _installed
    from exactly_lib.util.process_execution import process_executor as pe
    from exactly_lib.processing import preprocessor as pp
    pe.subprocess = _real_subprocess
    pp.subprocess = _real_subprocess
    _installed = False
