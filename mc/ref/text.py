"""Reference semantics of TEXT-MATCHER / TEXT-TRANSFORMER / LINE-MATCHER / INTEGER-MATCHER,
written from the reference manual (`exactly help syntax TEXT-MATCHER` etc.), independent of exactly_lib.

Abstract syntax (plain tuples):

  integer matcher  IM ::= ('cmp', op, k) | ('const', b) | ('not', IM) | ('and', [IM..]) | ('or', [IM..])
  line matcher     LM ::= ('contents', TM) | ('line-num', IM) | ('const', b) | ('not', LM) | ('and', [..]) | ('or', [..])
  text matcher     TM ::= ('empty',) | ('equals', kind, s) | ('matches', full, icase, rx) | ('num-lines', IM)
                        | ('every', LM) | ('any', LM) | ('transformed', TT, TM) | ('const', b)
                        | ('not', TM) | ('and', [..]) | ('or', [..])
  transformer      TT ::= ('replace', rx, repl, preserve_nl, LM|None) | ('strip', None|'space'|'new-lines')
                        | ('case', 'upper'|'lower') | ('filter', LM) | ('line-nums', [range..]) | ('grep', full, rx)
                        | ('identity',) | ('seq', [TT..])
  range            ::= ('p', n) | ('u', n) | ('l', n) | ('f', a, b)         n | :n | n: | a:b

`render_*` gives concrete syntax (minimal parentheses, one line), `ev_*` the documented value.
"""
import re

# "Every line ends with "\n", except the last line, which may or may not end with "\n"."
_LINES = re.compile(r'[^\n]*\n|[^\n]+')

OPS = {'==': lambda a, b: a == b, '!=': lambda a, b: a != b, '<': lambda a, b: a < b,
       '<=': lambda a, b: a <= b, '>': lambda a, b: a > b, '>=': lambda a, b: a >= b}


def lines(t):
    return _LINES.findall(t)


def line_models(t):
    """[(1-based number, contents without the line separator)]"""
    return [(i, l[:-1] if l.endswith('\n') else l) for i, l in enumerate(lines(t), 1)]


# ---------------------------------------------------------------------------------------------
# evaluation
# ---------------------------------------------------------------------------------------------

def ev_bool(node, leaf, model):
    k = node[0]
    if k == 'const':
        return node[1]
    if k == 'not':
        return not ev_bool(node[1], leaf, model)
    if k == 'and':
        for x in node[1]:  # lazily, left to right
            if not ev_bool(x, leaf, model):
                return False
        return True
    if k == 'or':
        for x in node[1]:
            if ev_bool(x, leaf, model):
                return True
        return False
    return leaf(node, model)


def _im_leaf(node, k):
    if node[0] == 'cmp':
        return OPS[node[1]](k, node[2])
    raise ValueError(node)


def ev_im(im, k):
    return ev_bool(im, _im_leaf, k)


def _lm_leaf(node, line):
    if node[0] == 'contents':
        return ev_tm(node[1], line[1])
    if node[0] == 'line-num':
        return ev_im(node[1], line[0])
    raise ValueError(node)


def ev_lm(lm, line):
    return ev_bool(lm, _lm_leaf, line)


def _rx(rx, icase):
    return re.compile(rx, re.IGNORECASE if icase else 0)


def _tm_leaf(node, text):
    k = node[0]
    if k == 'empty':
        return text == ''
    if k == 'equals':
        return text == node[2]
    if k == 'matches':
        _, full, icase, rx = node
        c = _rx(rx, icase)
        return (c.fullmatch(text) if full else c.search(text)) is not None
    if k == 'num-lines':
        return ev_im(node[1], len(lines(text)))
    if k == 'every':
        return all(ev_lm(node[1], l) for l in line_models(text))
    if k == 'any':
        return any(ev_lm(node[1], l) for l in line_models(text))
    if k == 'transformed':
        return ev_tm(node[2], ev_tt(node[1], text))
    raise ValueError(node)


def ev_tm(tm, text):
    return ev_bool(tm, _tm_leaf, text)


def range_contains(r, i, n):
    def norm(b):
        return n + 1 + b if b < 0 else b

    k = r[0]
    if k == 'p':
        return i == norm(r[1])
    if k == 'u':
        return i <= norm(r[1])
    if k == 'l':
        return i >= norm(r[1])
    return norm(r[1]) <= i <= norm(r[2])


def ev_tt(tt, text):
    k = tt[0]
    if k == 'identity':
        return text
    if k == 'seq':
        for t in tt[1]:
            text = ev_tt(t, text)
        return text
    if k == 'case':
        return text.upper() if tt[1] == 'upper' else text.lower()
    if k == 'strip':
        if tt[1] is None:
            return text.strip()
        if tt[1] == 'space':
            return text.rstrip()
        return text.rstrip('\n')
    if k == 'filter':
        ls = lines(text)
        return ''.join(l for l, m in zip(ls, line_models(text)) if ev_lm(tt[1], m))
    if k == 'grep':
        c = re.compile(tt[2])
        out = []
        for l, m in zip(lines(text), line_models(text)):
            if (c.fullmatch(m[1]) if tt[1] else c.search(m[1])) is not None:
                out.append(l)
        return ''.join(out)
    if k == 'line-nums':
        ls = lines(text)
        n = len(ls)
        return ''.join(l for i, l in enumerate(ls, 1) if any(range_contains(r, i, n) for r in tt[1]))
    if k == 'replace':
        _, rx, repl, preserve, at = tt
        c = re.compile(rx)
        out = []
        for l, m in zip(lines(text), line_models(text)):
            if at is not None and not ev_lm(at, m):
                out.append(l)
            elif preserve and l.endswith('\n'):
                out.append(c.sub(repl, l[:-1]) + '\n')
            else:
                out.append(c.sub(repl, l))
        return ''.join(out)
    raise ValueError(tt)


# ---------------------------------------------------------------------------------------------
# concrete syntax
# ---------------------------------------------------------------------------------------------

def q(s):
    """A STRING denoting exactly s (s without newline)."""
    if '\n' in s:
        raise ValueError('newline in quoted string')
    if "'" not in s:
        return "'" + s + "'"
    if '"' not in s and '@[' not in s:
        return '"' + s + '"'
    raise ValueError('cannot quote %r' % s)


class Ctx:
    """Rendering context: allocates files for texts that are given as -contents-of."""

    def __init__(self):
        self.files = {}

    def file_for(self, s):
        name = 'exp%d.txt' % len(self.files)
        self.files[name] = s
        return name


def _prec(node):
    return {'or': 1, 'and': 2, 'not': 3}.get(node[0], 4)


def render_bool(node, leaf, ctx, simple=False):
    """simple=True: the context allows no infix operator outside parentheses."""
    k = node[0]
    if k == 'const':
        return 'constant ' + ('true' if node[1] else 'false')
    if k == 'not':
        inner = render_bool(node[1], leaf, ctx)
        if _prec(node[1]) < 3:
            inner = '( ' + inner + ' )'
        return '! ' + inner
    if k in ('and', 'or'):
        op = ' && ' if k == 'and' else ' || '
        parts = []
        for x in node[1]:
            s = render_bool(x, leaf, ctx)
            if _prec(x) <= _prec(node):  # same operator nested: keep the tree shape explicit
                s = '( ' + s + ' )'
            parts.append(s)
        s = op.join(parts)
        return '( ' + s + ' )' if simple else s
    return leaf(node, ctx)


def render_im(im, ctx=None, simple=False):
    def leaf(n, c):
        return '%s %d' % (n[1], n[2])

    return render_bool(im, leaf, ctx, simple)


def render_lm(lm, ctx=None, simple=False):
    def leaf(n, c):
        if n[0] == 'contents':
            return 'contents ' + render_tm(n[1], c, simple=True)
        return 'line-num ' + render_im(n[1], c, simple=True)

    return render_bool(lm, leaf, ctx, simple)


def render_text_source(kind, s, ctx):
    if kind == 'str':
        return q(s)
    if kind == 'here':
        if s and not s.endswith('\n'):
            raise ValueError('here-document text must end with newline')
        return '<<EOF\n' + s + 'EOF\n'
    if kind == 'file':
        return '-contents-of -rel-act ' + ctx.file_for(s)
    if kind == 'file-id':
        return '-contents-of -rel-act ' + ctx.file_for(s) + ' -transformed-by identity'
    raise ValueError(kind)


def render_tm(tm, ctx=None, simple=False):
    def leaf(n, c):
        k = n[0]
        if k == 'empty':
            return 'is-empty'
        if k == 'equals':
            return 'equals ' + render_text_source(n[1], n[2], c)
        if k == 'matches':
            return 'matches ' + ('-full ' if n[1] else '') + ('-ignore-case ' if n[2] else '') + q(n[3])
        if k == 'num-lines':
            return 'num-lines ' + render_im(n[1], c, simple=True)
        if k == 'every':
            return 'every line : ' + render_lm(n[1], c, simple=True)
        if k == 'any':
            return 'any line : ' + render_lm(n[1], c, simple=True)
        if k == 'transformed':
            return '-transformed-by ' + render_tt(n[1], c, simple=True) + ' ' + render_tm(n[2], c, simple=True)
        raise ValueError(n)

    return render_bool(tm, leaf, ctx, simple)


def render_range(r):
    if r[0] == 'p':
        return '%d' % r[1]
    if r[0] == 'u':
        return ':%d' % r[1]
    if r[0] == 'l':
        return '%d:' % r[1]
    return '%d:%d' % (r[1], r[2])


def render_tt(tt, ctx=None, simple=False):
    k = tt[0]
    if k == 'identity':
        return 'identity'
    if k == 'seq':
        s = ' | '.join(('( ' + render_tt(t, ctx) + ' )') if t[0] == 'seq' else render_tt(t, ctx) for t in tt[1])
        return '( ' + s + ' )' if simple else s
    if k == 'case':
        return 'char-case -to-' + tt[1]
    if k == 'strip':
        return 'strip' + {None: '', 'space': ' -trailing-space', 'new-lines': ' -trailing-new-lines'}[tt[1]]
    if k == 'filter':
        return 'filter ' + render_lm(tt[1], ctx, simple=True)  # (probed: infix operators must be inside parentheses here)
    if k == 'grep':
        return 'grep ' + ('-full ' if tt[1] else '') + q(tt[2])
    if k == 'line-nums':
        return 'filter -line-nums ' + ' '.join(render_range(r) for r in tt[1])
    if k == 'replace':
        _, rx, repl, preserve, at = tt
        return 'replace ' + ('' if at is None else '-at ' + render_lm(at, ctx, simple=True) + ' ') + \
            ('-preserve-new-lines ' if preserve else '') + q(rx) + ' ' + q(repl)
    raise ValueError(tt)
