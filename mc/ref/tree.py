"""Reference model of directory trees: populating from a FILE-LIST and matching directory contents.
Written from `help syntax FILES-SOURCE`, `FILES-MATCHER`, `FILE-MATCHER`, `FILES-CONDITION`, `GLOB-PATTERN`.

A tree is a dict  path -> node  with node = ('f', contents) | ('d',) | ('l', target)   (paths relative to the root, '/'-separated);
every parent directory of a path is itself in the dict.
"""
import fnmatch
import posixpath
import re


class PopulateError(Exception):
    pass


class InvalidName(Exception):
    pass


def check_name(name):
    if name.startswith('/') or '..' in name.split('/') or name in ('', '.'):
        raise InvalidName(name)


def _mkparents(tree, path):
    parts = path.split('/')[:-1]
    cur = ''
    for p in parts:
        cur = p if not cur else cur + '/' + p
        n = tree.get(cur)
        if n is None:
            tree[cur] = ('d',)
        elif n[0] != 'd':
            raise PopulateError('%s is not a directory' % cur)


def populate(tree, prefix, specs, src_trees):
    """Apply FILE-SPECs in order under directory `prefix` ('' = the populated root)."""
    for spec in specs:
        kind, name, arg = spec
        check_name(name)
        path = name if not prefix else prefix + '/' + name
        if kind == 'file' or kind == 'file=':
            _mkparents(tree, path)
            if path in tree:
                raise PopulateError('%s exists' % path)
            tree[path] = ('f', arg or '')
        elif kind == 'file+=':
            n = tree.get(path)
            if n is None or n[0] != 'f':
                raise PopulateError('%s is not an existing regular file' % path)
            tree[path] = ('f', n[1] + arg)
        elif kind == 'dir':
            _mkparents(tree, path)
            if path in tree:
                raise PopulateError('%s exists' % path)
            tree[path] = ('d',)
        elif kind == 'dir=':
            _mkparents(tree, path)
            if path in tree:
                raise PopulateError('%s exists' % path)
            tree[path] = ('d',)
            populate(tree, path, arg, src_trees)
        elif kind == 'dir+=':
            n = tree.get(path)
            if n is None or n[0] != 'd':
                raise PopulateError('%s is not an existing directory' % path)
            populate(tree, path, arg, src_trees)
        elif kind in ('dir=copy', 'dir+=copy'):
            if kind == 'dir=copy':
                _mkparents(tree, path)
                if path in tree:
                    raise PopulateError('%s exists' % path)
                tree[path] = ('d',)
            else:
                n = tree.get(path)
                if n is None or n[0] != 'd':
                    raise PopulateError('%s is not an existing directory' % path)
            for p, node in sorted(src_trees[arg].items()):
                dst = path + '/' + p
                if dst in tree:
                    if node[0] == 'd' and tree[dst][0] == 'd':
                        continue
                    raise PopulateError('%s exists' % dst)
                tree[dst] = node
        else:
            raise ValueError(spec)
    return tree


# ------------------------------------------------------------------------------------------------
# matching
# ------------------------------------------------------------------------------------------------

def resolve(tree, path, depth=0):
    """Follow symbolic links: -> (kind, contents) of the final node, or None if it does not exist."""
    n = tree.get(path)
    if n is None or depth > 8:
        return None
    if n[0] == 'l':
        target = posixpath.normpath(posixpath.join(posixpath.dirname(path), n[1]))
        if target.startswith('..') or target.startswith('/'):
            return None
        return resolve(tree, target, depth + 1)
    return n


def real_dir_path(tree, path, depth=0):
    n = tree.get(path)
    if n is None or depth > 8:
        return None
    if n[0] == 'l':
        target = posixpath.normpath(posixpath.join(posixpath.dirname(path), n[1]))
        return real_dir_path(tree, target, depth + 1)
    return path if n[0] == 'd' else None


def children(tree, dirpath):
    pre = dirpath + '/' if dirpath else ''
    return sorted(p for p in tree if p.startswith(pre) and '/' not in p[len(pre):] and p != dirpath and p[len(pre):])


def listing(tree, root, recursive=False, min_depth=0, max_depth=None, prune=None):
    """[(relative name, path in tree)] of the files of directory `root` (symbolic links to directories are entered)."""
    out = []

    def walk(real, rel_prefix, depth):
        for p in children(tree, real):
            name = p.split('/')[-1]
            rel = name if not rel_prefix else rel_prefix + '/' + name
            if depth >= min_depth and (max_depth is None or depth <= max_depth):
                out.append((rel, p))
            if recursive and (max_depth is None or depth < max_depth):
                r = resolve(tree, p)
                if r is not None and r[0] == 'd':
                    if prune is not None and prune(rel, p):
                        continue
                    walk(real_dir_path(tree, p), rel, depth + 1)

    walk(real_dir_path(tree, root) if root else '', '', 0)
    return out


def name_parts(name):
    """path | name | stem | suffixes | suffix, as the table on the FILE-MATCHER page."""
    base = name.split('/')[-1]
    if base.startswith('.') and base.count('.') >= 1 and not base[1:].count('.') and False:
        pass
    # pathlib semantics (the table is generated from pathlib: '.x.y' has stem '.x'?)  -- the table says: .x.y -> stem '', suffixes '.x.y', suffix '.y'
    i = base.find('.')
    if i == -1:
        return base, base, '', ''
    stem = base[:i]
    suffixes = base[i:]
    j = base.rfind('.')
    suffix = base[j:]
    return base, stem, suffixes, suffix


def glob_or_regex(pat, s):
    if pat[0] == 'glob':
        return fnmatch.fnmatchcase(s, pat[1])
    return re.search(pat[1], s) is not None


OPS = {'==': lambda a, b: a == b, '!=': lambda a, b: a != b, '<': lambda a, b: a < b, '<=': lambda a, b: a <= b, '>': lambda a, b: a > b, '>=': lambda a, b: a >= b}


def ev_fm(fm, tree, rel, path):
    k = fm[0]
    if k == 'const':
        return fm[1]
    if k == 'not':
        return not ev_fm(fm[1], tree, rel, path)
    if k == 'and':
        return all(ev_fm(x, tree, rel, path) for x in fm[1])
    if k == 'or':
        return any(ev_fm(x, tree, rel, path) for x in fm[1])
    if k == 'type':
        if fm[1] == 'symlink':
            return tree[path][0] == 'l'
        r = resolve(tree, path)
        return r is not None and r[0] == {'file': 'f', 'dir': 'd'}[fm[1]]
    base, stem, suffixes, suffix = name_parts(rel)
    if k == 'name':
        return glob_or_regex(fm[1], base)
    if k == 'stem':
        return glob_or_regex(fm[1], stem)
    if k == 'suffixes':
        return glob_or_regex(fm[1], suffixes)
    if k == 'suffix':
        return glob_or_regex(fm[1], suffix)
    if k == 'contents-empty':
        r = resolve(tree, path)
        return r is not None and r[0] == 'f' and r[1] == ''
    if k == 'dir-contents':
        return ev_fsm(fm[2], tree, path, **fm[1])
    raise ValueError(fm)


def ev_fsm(m, tree, root, recursive=False, min_depth=0, max_depth=None, _files=None, _prune=None):
    """Files-matcher on the contents of directory `root`."""
    def files(prune=_prune):
        if _files is not None and prune is _prune:
            return _files
        pr = None
        if prune:
            pr = lambda rel, p: any(ev_fm(f, tree, rel, p) for f in prune)
        fs = listing(tree, root, recursive, min_depth, max_depth, pr)
        return fs

    k = m[0]
    if k == 'const':
        return m[1]
    if k == 'not':
        return not ev_fsm(m[1], tree, root, recursive, min_depth, max_depth, _files, _prune)
    if k == 'and':
        return all(ev_fsm(x, tree, root, recursive, min_depth, max_depth, _files, _prune) for x in m[1])
    if k == 'or':
        return any(ev_fsm(x, tree, root, recursive, min_depth, max_depth, _files, _prune) for x in m[1])
    if k == 'empty':
        return len(files()) == 0
    if k == 'num':
        return OPS[m[1]](len(files()), m[2])
    if k == 'every':
        return all(ev_fm(m[1], tree, rel, p) for rel, p in files())
    if k == 'any':
        return any(ev_fm(m[1], tree, rel, p) for rel, p in files())
    if k == 'matches':
        full, conds = m[1], m[2]
        fs = dict(files())
        for name, fm in conds:
            if name not in fs:
                return False
            if fm is not None and not ev_fm(fm, tree, name, fs[name]):
                return False
        if full and set(fs) != set(n for n, _ in conds):
            return False
        return True
    if k == 'selection':
        # applied after pruning, whatever the written order
        sel = [(rel, p) for rel, p in files() if ev_fm(m[1], tree, rel, p)]
        return ev_fsm(m[2], tree, root, recursive, min_depth, max_depth, sel, _prune)
    if k == 'pruned':
        if _files is not None:
            # pruning is done before selection: recompute the listing with the extra prune matcher, then re-apply nothing here
            raise NotImplementedError('-with-pruned inside -selection is not generated')
        pr = (_prune or []) + [m[1]]
        return ev_fsm(m[2], tree, root, recursive, min_depth, max_depth, None, pr)
    raise ValueError(m)
