"""Bounded-exhaustive explorer for emilkarlen/exactly (see /verif/DESIGN.md)."""
