"""S-CLI: drive the real main program in-process."""
import io
import os
import tempfile
import traceback

from mc import world as _world
from mc.procseam import VirtualHang

_MP = None


def main_program():
    global _MP
    if _MP is None:
        from exactly_lib.cli_default.default_main_program_setup import default_main_program
        _MP = default_main_program()
    return _MP


class Obs:
    """Observation of one `exactly ARGV` run."""
    __slots__ = ('rc', 'out', 'err', 'exc', 'hang')

    def __init__(self, rc, out, err, exc=None, hang=False):
        self.rc = rc
        self.out = out
        self.err = err
        self.exc = exc
        self.hang = hang

    @property
    def ident(self):
        """Last non-empty stdout line (the exit identifier in normal mode)."""
        lines = [l for l in self.out.split('\n') if l.strip()]
        return lines[-1] if lines else ''

    def brief(self):
        return {'rc': self.rc, 'out': self.out[-300:], 'err': self.err[-600:], 'exc': self.exc, 'hang': self.hang}


OWN_STDIN_TEXT = 'THE STDIN OF THE EXACTLY PROCESS ITSELF\n'


def _own_stdin():
    """Before every run, the standard input of the exactly process (descriptor 0 and sys.stdin) is a file holding a known text, positioned at
    its start.  A process that exactly starts must get the stdin the test case denotes (nothing, if none is denoted) - never this text."""
    import os
    import sys
    p = str(_world.get().root / 'own-stdin.txt')
    with open(p, 'w') as f:
        f.write(OWN_STDIN_TEXT)
    fd = os.open(p, os.O_RDONLY)
    try:
        os.dup2(fd, 0)
    finally:
        os.close(fd)
    sys.stdin = open(0, 'r', closefd=False)


def run(argv, mp=None, real_files=False) -> Obs:
    """mp.execute(argv, StdOutputFiles(out, err)).  An exception escaping execute is
    an observation (`exc`), as is a VirtualHang (`hang`)."""
    from exactly_lib.util.file_utils.std import StdOutputFiles
    mp = mp or main_program()
    if real_files:
        o = tempfile.TemporaryFile('w+', dir=str(_world.get().root))
        e = tempfile.TemporaryFile('w+', dir=str(_world.get().root))
    else:
        o, e = io.StringIO(), io.StringIO()
    rc, exc, hang = None, None, False
    _own_stdin()
    try:
        rc = mp.execute(list(argv), StdOutputFiles(o, e))
    except VirtualHang as ex:
        hang = True
        exc = 'VirtualHang: %s' % ex
    except SystemExit as ex:
        exc = 'SystemExit(%r)' % (ex.code,)
    except Exception as ex:  # noqa  -- an escaping exception is an observation
        exc = '%s: %s\n%s' % (type(ex).__name__, ex, traceback.format_exc(limit=6))
    if real_files:
        o.seek(0)
        e.seek(0)
        out, err = o.read(), e.read()
        o.close()
        e.close()
    else:
        out, err = o.getvalue(), e.getvalue()
    return Obs(rc, out, err, exc, hang)


def run_case(text, args=(), name='c.case', files=None, mp=None, real_files=False) -> Obs:
    """Write `text` as home/<name> (plus extra `files` {rel: text}) and run it."""
    w = _world.get()
    if files:
        for rel, t in files.items():
            w.write(rel, t)
    p = w.write(name, text)
    return run(list(args) + [str(p)], mp=mp, real_files=real_files)


def stderr_lines(err):
    return [l for l in err.split('\n') if l.strip()]
