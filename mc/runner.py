"""Runner of one check:  python -m mc.runner C05 [--tier quick|thorough] [--replay FILE]

A check module (checks/cNN.py) provides

    PROPERTY, LEVEL, RULE, ASSUMPTIONS, CHUNK
    prepare(tier)             optional, runs in the parent before forking
    cases(tier)               generator of cases in canonical (simplest-first) order;
                              a case is a literal (tuples / lists / dicts / str / int / None)
    run(case) -> Result       drives the real implementation; fills counts and violations;
                              every violation carries a case that run() accepts again
    coverage_extra(tier, agg) optional extra coverage keys

The runner enumerates *all* cases (no sampling), runs every chunk in a process
forked from the pristine parent (so the only history a case can depend on is
the prefix of its own chunk), confirms candidate violations in a fresh
interpreter, prints VIOLATION / KNOWN-FINDING lines and writes the evidence.
"""
import argparse
import ast
import importlib
import itertools
import json
import os
import pickle
import re
import signal
import subprocess
import sys
import time
import traceback

from mc import world
from mc.result import Result

VERIF = os.path.dirname(os.path.dirname(os.path.abspath(__file__)))
CASE_GUARD_S = 60


class CaseTimeout(BaseException):
    pass


def _on_alarm(signum, frame):
    raise CaseTimeout()


def check_repo_binding():
    import exactly_lib
    repo = os.path.realpath(os.environ.get('VERIF_REPO', '/repo'))
    where = os.path.realpath(exactly_lib.__file__)
    if not where.startswith(repo + os.sep):
        print('HARNESS-ERROR exactly_lib imported from %s, not from %s' % (where, repo))
        sys.exit(3)


_MOD = None
_TIER = ['quick']


def _guard_of(mod):
    g = getattr(mod, 'CASE_GUARD_S', CASE_GUARD_S)
    return g[_TIER[0]] if isinstance(g, dict) else g


def run_guarded(mod, case) -> Result:
    signal.signal(signal.SIGALRM, _on_alarm)
    signal.setitimer(signal.ITIMER_REAL, _guard_of(mod))
    try:
        r = mod.run(case)
    except CaseTimeout:
        r = Result()
        r.n = 1
        r.violation(case, ['case did not finish within the %ds guard (non-termination)' % _guard_of(mod)])
    except Exception as ex:  # noqa
        r = Result()
        r.n = 1
        r.violation(case, ['exception escaped into the harness: %s: %s' % (type(ex).__name__, ex),
                           traceback.format_exc(limit=8)])
    finally:
        signal.setitimer(signal.ITIMER_REAL, 0)
    return r


def _run_chunk(payload):
    idx, cases = payload
    agg = Result()
    try:
        for j, case in enumerate(cases):
            r = run_guarded(_MOD, case)
            for v in r.viol:
                agg.viol.append((v[0], v[1], v[2], idx, j))
            r.viol = []
            agg.merge(r)
    finally:
        world.drop()
    return idx, agg


def fork_pool(chunks, jobs, base, on_result):
    """Run every chunk in a process forked from this (pristine) parent; results come back as pickle files.
    A worker that dies is reported as a violation of its chunk, never waited for."""
    running = {}
    it = iter(chunks)
    exhausted = stop = False
    try:
        while True:
            while not exhausted and not stop and len(running) < jobs:
                try:
                    idx, block = next(it)
                except StopIteration:
                    exhausted = True
                    break
                path = os.path.join(base, 'result-%d.pkl' % idx)
                sys.stdout.flush()
                sys.stderr.flush()
                pid = os.fork()
                if pid == 0:
                    code = 0
                    try:
                        out = _run_chunk((idx, block))
                        with open(path + '.tmp', 'wb') as f:
                            pickle.dump(out, f, protocol=pickle.HIGHEST_PROTOCOL)
                        os.rename(path + '.tmp', path)
                    except BaseException:  # noqa
                        traceback.print_exc()
                        code = 17
                    finally:
                        sys.stdout.flush()
                        sys.stderr.flush()
                        os._exit(code)
                running[pid] = (idx, path, block)
            if not running:
                break
            pid, status = os.wait()
            if pid not in running:
                continue
            idx, path, block = running.pop(pid)
            if status == 0 and os.path.exists(path):
                with open(path, 'rb') as f:
                    _, r = pickle.load(f)
                os.unlink(path)
            else:
                r = Result()
                r.n = len(block)
                r.nviol = 1
                r.viol.append((block[0], ['worker process for chunk %d died (wait status %d): crash or memory exhaustion while '
                                          'running its %d cases' % (idx, status, len(block))], None, idx, 0))
            if on_result(idx, r):
                stop = True
                break
    finally:
        for pid in list(running):
            try:
                os.kill(pid, signal.SIGKILL)
            except OSError:
                pass
        for pid in list(running):
            try:
                os.waitpid(pid, 0)
            except OSError:
                pass


def _chunks(it, size):
    it = iter(it)
    i = 0
    while True:
        block = list(itertools.islice(it, size))
        if not block:
            return
        yield i, block
        i += 1


def _literal(case):
    return ast.literal_eval(case) if isinstance(case, str) else case


def _jsonable(x):
    if isinstance(x, (str, int, float, bool)) or x is None:
        return x
    if isinstance(x, bytes):
        return x.decode('latin-1')
    if isinstance(x, dict):
        return {str(k): _jsonable(v) for k, v in x.items()}
    if isinstance(x, (list, tuple, set, frozenset)):
        return [_jsonable(v) for v in x]
    return repr(x)


def write_replay(prop, n, tier, case, errs, obs, history):
    d = os.path.join(VERIF, 'replays', prop)
    os.makedirs(d, exist_ok=True)
    p = os.path.join(d, '%d.json' % n)
    with open(p, 'w') as f:
        json.dump({'property': prop, 'tier': tier,
                   'case_repr': repr(case), 'case': _jsonable(case),
                   'history_repr': None if history is None else [repr(c) for c in history],
                   'errors': errs, 'observed': _jsonable(obs),
                   'how_to_replay': './check %s --replay %s' % (prop, p)}, f, indent=1)
    return p


def replay(mod, path):
    with open(path) as f:
        rec = json.load(f)
    _TIER[0] = rec.get('tier', 'quick')
    if hasattr(mod, 'prepare'):
        mod.prepare(rec.get('tier', 'quick'))
    world.make_base()
    try:
        for h in rec.get('history_repr') or []:
            run_guarded(mod, ast.literal_eval(h))
        r = run_guarded(mod, ast.literal_eval(rec['case_repr']))
    finally:
        world.drop()
        world.remove_base()
    errs = [v[1] for v in r.viol]
    print('REPLAY-RESULT ' + json.dumps({'errs': errs, 'kf': dict(r.kf)}))
    if errs:
        for e in errs[0]:
            print('  ' + str(e))
        print('VIOLATION property=%s replay=%s' % (mod.PROPERTY, path))
        return 1
    return 0


_VOLATILE = [(re.compile(r'/[\w/.-]*exactly-verif-\w+/w\d+-\w+'), '<W>'),
             (re.compile(r'exactly-[a-z0-9_]{8}\b'), 'exactly-<R>'),
             (re.compile(r'\b0x[0-9a-f]{6,}\b'), '<ADDR>'),
             (re.compile(r'\(\d+\.\d+s\)'), '(<T>s)')]


def normalise(x):
    """Remove run-specific names (scratch world, sandbox suffix, addresses, durations) from error text."""
    if isinstance(x, str):
        for rx, rep in _VOLATILE:
            x = rx.sub(rep, x)
        return x
    if isinstance(x, (list, tuple)):
        return [normalise(v) for v in x]
    if isinstance(x, dict):
        return {k: normalise(v) for k, v in x.items()}
    return x


def _replay_subprocess(prop, path):
    cmd = [os.path.join(VERIF, 'check'), prop, '--replay', path]
    p = subprocess.run(cmd, stdout=subprocess.PIPE, stderr=subprocess.STDOUT, text=True)
    for line in p.stdout.split('\n'):
        if line.startswith('REPLAY-RESULT '):
            return normalise(json.loads(line[len('REPLAY-RESULT '):])['errs'])
    return None


def confirm(mod, tier, cand, chunk_cases_of, n):
    """cand = (case, errs, obs, chunk_idx, pos).  Returns (status, replay_path)."""
    case, errs, obs, cidx, pos = cand
    path = write_replay(mod.PROPERTY, n, tier, case, errs, obs, None)
    a = _replay_subprocess(mod.PROPERTY, path)
    b = _replay_subprocess(mod.PROPERTY, path)
    if a and b and a == b:
        return 'confirmed', path
    history = chunk_cases_of(cidx)[:pos]
    path = write_replay(mod.PROPERTY, n, tier, case, errs, obs, history)
    a = _replay_subprocess(mod.PROPERTY, path)
    b = _replay_subprocess(mod.PROPERTY, path)
    if a and b and a == b:
        return 'confirmed-with-history', path
    # the derived single case does not reproduce, alone or after the cases before it: the history may lie INSIDE the enumerated case that
    # produced it (one case explores many inputs with one parsed value): replay that whole case after its chunk prefix
    block = chunk_cases_of(cidx)
    if pos < len(block) and block[pos] != case:
        path = write_replay(mod.PROPERTY, n, tier, block[pos], errs, obs, history)
        a = _replay_subprocess(mod.PROPERTY, path)
        b = _replay_subprocess(mod.PROPERTY, path)
        if a and b and a == b:
            return 'confirmed-enclosing-case', path
    return 'unconfirmed', path


def load_known_findings():
    p = os.path.join(VERIF, 'known_findings.json')
    if not os.path.exists(p):
        return {}
    with open(p) as f:
        return {e['id']: e for e in json.load(f)['findings']}


def main(argv=None):
    global _MOD
    ap = argparse.ArgumentParser()
    ap.add_argument('property')
    ap.add_argument('--tier', default=os.environ.get('VERIF_TIER', 'quick'), choices=['quick', 'thorough'])
    ap.add_argument('--replay')
    ap.add_argument('--jobs', type=int, default=int(os.environ.get('VERIF_JOBS', '0')) or (os.cpu_count() or 4))
    ap.add_argument('--limit', type=int, default=0, help='debug: stop after N chunks (evidence says not exhaustive)')
    ap.add_argument('--no-evidence', action='store_true')
    ap.add_argument('--show', type=int, default=0, help='debug: print the first N candidate violations (before confirmation)')
    args = ap.parse_args(argv)
    prop = args.property.upper()
    try:
        seed = int(os.environ.get('VERIF_SEED', '0'))
    except ValueError:
        seed = 0
    check_repo_binding()
    mod = importlib.import_module('checks.' + prop.lower())
    _MOD = mod
    _TIER[0] = args.tier
    if args.replay:
        return replay(mod, args.replay)

    t0 = time.time()
    if hasattr(mod, 'prepare'):
        mod.prepare(args.tier)
    base = world.make_base()
    agg = Result()
    chunk_size = getattr(mod, 'CHUNK', 100)
    if isinstance(chunk_size, dict):
        chunk_size = chunk_size[args.tier]
    budget = getattr(mod, 'BUDGET_S', {}).get(args.tier)
    capped = None
    nchunks = 0
    cand = []
    try:
        gen = _chunks(mod.cases(args.tier), chunk_size)
        if args.limit:
            gen = itertools.islice(gen, args.limit)
            capped = 'debug --limit %d chunks' % args.limit
        def on_result(idx, r):
            nonlocal nchunks, capped
            nchunks += 1
            cand.extend(r.viol)
            r.viol = []
            agg.merge(r)
            if agg.nviol >= 40:
                capped = 'stopped early after %d violations' % agg.nviol
                return True
            if budget and time.time() - t0 > budget:
                capped = 'time budget of %ds reached after %d chunks of %d cases (in canonical order)' % (
                    budget, nchunks, chunk_size)
                return True
            return False

        if args.jobs <= 1:
            for payload in gen:
                idx, r = _run_chunk(payload)
                if on_result(idx, r):
                    break
        else:
            fork_pool(gen, args.jobs, base, on_result)
        # --- confirm candidate violations in fresh interpreters ---------------------
        cand.sort(key=lambda c: (c[3], c[4]))
        for c in cand[:args.show]:
            print('CANDIDATE %s\n    %s' % (repr(c[0])[:300], '\n    '.join(str(e)[:500] for e in c[1][:3])))
        confirmed, unconfirmed = [], []

        def chunk_cases_of(cidx):
            for i, block in _chunks(mod.cases(args.tier), chunk_size):
                if i == cidx:
                    return block
            return []

        seen_errs = set()
        n = 0
        for c in cand:
            key = json.dumps(_jsonable(c[1]))[:200]
            if len(confirmed) >= 3:
                break
            if key in seen_errs and len(confirmed) >= 1:
                continue
            seen_errs.add(key)
            n += 1
            status, path = confirm(mod, args.tier, c, chunk_cases_of, n)
            (confirmed if status.startswith('confirmed') else unconfirmed).append((c, status, path))
            if n >= 6:
                break
    finally:
        world.remove_base()

    wall = time.time() - t0
    kfs = load_known_findings()
    for kid, hits in sorted(agg.kf.items()):
        e = kfs.get(kid)
        if e is None or e.get('status') != 'known':
            print('HARNESS-ERROR check attributed a violation to %s, which known_findings.json does not list as known' % kid)
            return 3
        print('KNOWN-FINDING: property=%s %s [%s, %d occurrence(s) in this run]' % (prop, e['what'], kid, hits))
    for c, status, path in confirmed:
        print('  case: %s' % (repr(c[0])[:500],))
        for e in c[1][:6]:
            print('  - %s' % (str(e)[:800],))
        print('VIOLATION property=%s replay=%s' % (prop, path))
    for c, status, path in unconfirmed:
        print('UNCONFIRMED candidate (did not reproduce in a fresh process, alone or after its chunk prefix): %s %s replay=%s'
              % (repr(c[0])[:300], c[1][:2], path))

    if not args.no_evidence:
        write_evidence(mod, args.tier, seed, agg, wall, capped, len(confirmed), nchunks, chunk_size)
    print('%s tier=%s cases-run=%d chunks=%d outcomes=%d states=%d transitions=%d violations=%d known-finding-hits=%d wall=%.1fs%s'
          % (prop, args.tier, agg.n, nchunks, len(agg.outcomes), len(agg.states), len(agg.trans), agg.nviol,
             sum(agg.kf.values()), wall, ' CAPPED: ' + capped if capped else ''))
    if confirmed:
        return 1
    if unconfirmed:
        return 2
    return 0


def write_evidence(mod, tier, seed, agg, wall, capped, nconfirmed, nchunks, chunk_size):
    prop = mod.PROPERTY
    nontrivial = agg.nontrivial + len(agg.nontrivial_keys)
    samples = list(agg.samples)
    if samples:
        k = seed % len(samples)
        samples = samples[k:] + samples[:k]
    cov = {
        'evaluations': agg.n,
        'distinct_nontrivial': nontrivial,
        'rule': mod.RULE if isinstance(mod.RULE, str) else mod.RULE[tier],
        'samples': [_jsonable(s) for s in samples[:8]],
        'exhaustive': capped is None,
        'distinct_outcomes': len(agg.outcomes),
        'outcome_histogram': {str(k): v for k, v in agg.outcomes.most_common(40)},
        'chunks': nchunks,
        'chunk_size': chunk_size,
        'known_finding_hits': dict(agg.kf),
        'stats': dict(agg.stats),
    }
    if capped:
        cov['cap'] = capped
    if mod.LEVEL == 'model_checking':
        cov['states'] = len(agg.states)
        cov['transitions'] = len(agg.trans)
        cov['traces_validated_against_impl'] = agg.validated
    if hasattr(mod, 'coverage_extra'):
        cov.update(mod.coverage_extra(tier, agg))
    ev = {
        'property_id': prop,
        'tier': tier,
        'seed': seed,
        'level': mod.LEVEL,
        'coverage': cov,
        'assumptions': list(mod.ASSUMPTIONS),
        'wall_s': round(wall, 2),
        'violations': agg.nviol,
    }
    d = os.path.join(VERIF, 'evidence')
    os.makedirs(d, exist_ok=True)
    p = os.path.join(d, '%s.json' % prop)
    with open(p + '.tmp', 'w') as f:
        json.dump(ev, f, indent=1, sort_keys=True)
    os.replace(p + '.tmp', p)


if __name__ == '__main__':
    sys.exit(main())
