"""Attribution of violations to known findings (known_findings.json, status=known).  DESIGN §2.7.
A violation is attributed only if its input satisfies the entry's narrow syntactic predicate AND the observed
wrong behaviour is what the entry's defect model predicts; everything else stays a VIOLATION."""
import json
import os

_KF = None


def entries():
    global _KF
    if _KF is None:
        p = os.path.join(os.path.dirname(os.path.dirname(os.path.abspath(__file__))), 'known_findings.json')
        with open(p) as f:
            _KF = {e['id']: e for e in json.load(f)['findings']}
    return _KF


def is_known(kid):
    e = entries().get(kid)
    return e is not None and e.get('status') == 'known'


def universal_newlines(t):
    return t.replace('\r\n', '\n').replace('\r', '\n')


def classify_c14(text, candidates, bad_observations, nbad):
    """KF-C14-CR.  Predicate: the input text contains a carriage return.  Defect model: wherever the text passes through a
    file it is read back with universal-newline translation (CR LF -> LF, lone CR -> LF); `candidates` are the texts this can
    produce (translation before / after any stage of the transformer chain).  Every wrong observation must be exactly one of
    them (or its division into lines at LF)."""
    if '\r' not in text or not is_known('KF-C14-CR') or len(bad_observations) != nbad or not bad_observations:
        return None
    import re
    split = lambda u: re.findall(r'[^\n]*\n|[^\n]+', u)
    for k, v in bad_observations:
        if k == 'str' and v not in candidates:
            return None
        if k == 'lines' and not any(v == split(u) for u in candidates):
            return None
        if k == 'first' and not any(v == (split(u)[0] if split(u) else None) for u in candidates):
            return None
    return 'KF-C14-CR'


def classify_c09(fragments, ctx, follower, want, got, ident, d=None):
    """KF-C09-QUOTE.  Predicate: the token is made of adjacent fragments of which at least one is hard-quoted and at least one is not,
    and some fragment contains a symbol reference.  Defect model: the quoting type of the whole token is decided by its first character:
    if the first fragment is hard-quoted nothing is substituted, otherwise references are substituted in every fragment (also inside hard
    quotes).  The observation must be exactly what this model predicts, and the case must otherwise succeed."""
    if not is_known('KF-C09-QUOTE') or ident != 'PASS' or got is None:
        return None
    forms = [f for f, _ in fragments]
    if 'hard' not in forms or all(f == 'hard' for f in forms):
        return None
    raw = ''.join(c for _, c in fragments)
    if '@[S]@' not in raw:
        return None
    predicted = raw if forms[0] == 'hard' else raw.replace('@[S]@', 'VAL')
    true_den = ''.join(c if f == 'hard' else c.replace('@[S]@', 'VAL') for f, c in fragments)
    if predicted == true_den:
        return None
    if isinstance(want, list):
        pw = [predicted if x == true_den else x for x in want]
    else:
        pw = predicted if want == true_den else want
    return 'KF-C09-QUOTE' if got == pw else None


def classify_c12(how, ident, home_changed, target_exists, executed):
    """KF-C12-ABS.  Predicate: the FILE-NAME of a destination (literal or the value of a string symbol it starts with) is an absolute path.
    Defect model: the path is accepted and used as it is - the relativity root (given or default) is ignored - so the case PASSes and
    the file / directory is created exactly at the absolute path."""
    if not is_known('KF-C12-ABS'):
        return None
    if how not in ('literal', 'literal-with-option', 'string-symbol', 'string-symbol-with-option', 'string-symbol-lead'):
        return None     # (predicate: the absolute FILE-NAME is written literally or held by a STRING symbol - a path symbol has a relativity that is checked)
    if ident == 'PASS' and home_changed and target_exists:
        return 'KF-C12-ABS'
    return None


def classify_c18(text, rc, out, err):
    """Two findings.  KF-C18-NAMETOOLONG.  Predicate: the test case contains a word of more than 255 characters (longer than NAME_MAX) that is used as
    a file name.  Defect model: the existence check (pathlib stat) raises OSError errno 36 "File name too long", which is not translated
    and surfaces as INTERNAL_ERROR (exit 129) with that OSError in the traceback; nothing else is wrong."""
    import re
    if is_known('KF-C18-NAMETOOLONG') and rc == 129 and out == 'INTERNAL_ERROR\n' and 'File name too long' in err and 'OSError: [Errno 36]' in err \
            and re.search(r'[^\s/]{256,}', text):
        return 'KF-C18-NAMETOOLONG'
    # KF-C18-NUL.  Predicate: the test case contains a NUL character.  Defect model: the word is used as (part of) a file name; the first OS call
    # that gets it (stat, chdir, open, mkdir, ...) raises ValueError "embedded null byte", which is not translated and surfaces as INTERNAL_ERROR
    # (exit 129) with exactly that ValueError as the last line of the traceback; nothing else is wrong.
    if is_known('KF-C18-NUL') and rc == 129 and out == 'INTERNAL_ERROR\n' and '\x00' in text:
        last = [l for l in err.split('\n') if l.strip()][-1:] or ['']
        if last[0].strip() in ('ValueError: embedded null byte', 'embedded null byte'):  # (the second form: reported while the file is parsed, no traceback)
            return 'KF-C18-NUL'
    return None


def classify_c08(text, fphase, dphase, where, rc, out, err, probes):
    """KF-C08-SKIPPED-DEF.  Predicate: the definition of X stands AFTER an instruction that fails (later in the same phase, or in a later phase)
    - or in a phase that --act skips - and [cleanup] refers to X.  Defect model: the run-time symbol table is filled by the main step of each `def`; the failing instruction stops
    forward execution, so X is never added; [cleanup] still runs, and resolving the reference raises KeyError 'Name not in symbol table: "X"',
    reported as INTERNAL_ERROR (exit 129) in [cleanup] - or dropped in favour of the first failure when that was in [before-assert]; in both
    cases the cleanup instruction does not run (no probe).  Nothing else is wrong."""
    if not is_known('KF-C08-SKIPPED-DEF'):
        return None
    if fphase == 'act-mode':
        # --act skips [before-assert] and [assert]: their definitions are never executed either
        if dphase not in ('before-assert', 'assert'):
            return None
    elif where != 'after' and dphase == fphase:
        return None
    if probes != []:
        return None
    if rc == 129 and out == 'INTERNAL_ERROR\n' and 'Name not in symbol table: "X"' in err and 'In [cleanup]' in err:
        return 'KF-C08-SKIPPED-DEF'
    # after a failure in [before-assert] the report keeps that first failure (HARD_ERROR In [before-assert]); the KeyError of [cleanup] is dropped
    if fphase == 'before-assert' and rc == 128 and out == 'HARD_ERROR\n' and 'In [before-assert]' in err:
        return 'KF-C08-SKIPPED-DEF'
    return None


def classify_c10(place, stdin_kind, errs, stdin_pair, ident, want_ident):
    """KF-C10-ACT-HEREDOC.  Predicate: the program is written directly in [act] (command-line actor) and its stdin is a here-document whose body has
    lines that are empty, blank or start with `#`.  Defect model: the source of [act] is stripped of every empty / blank / comment line BEFORE the
    actor parses it, also inside the here-document; the process gets the denoted stdin without those lines.  Nothing else is wrong: the stdin
    mismatch is the only error and the observed text is exactly the denoted one minus those lines."""
    if not is_known('KF-C10-ACT-HEREDOC') or place != 'act' or stdin_kind != 'here-odd' or stdin_pair is None:
        return None
    if len(errs) != 1 or ident != want_ident:
        return None
    got, want = stdin_pair
    import re
    lines = re.findall(r'[^\n]*\n|[^\n]+', want)
    stripped = ''.join(l for l in lines if l.strip() != '' and not l.lstrip().startswith('#'))
    return 'KF-C10-ACT-HEREDOC' if got == stripped else None


def classify_c15(instr, ident, created_outside, errs):
    """KF-C15-SYMLINK-ESCAPE.  Predicate: the populated directory already contains a symbolic link to a directory outside it, and an entry of the
    FILE-LIST / copied tree has a name that passes through that link.  Defect model: names are only checked lexically (absolute, `..`); population
    follows the link, the case PASSes and the entry is created at the link's target.  The only error is the creation outside."""
    if not is_known('KF-C15-SYMLINK-ESCAPE'):
        return None
    if 'lnk' not in instr and 'esrc' not in instr:
        return None
    if ident == 'PASS' and created_outside and len(errs) == 1:
        return 'KF-C15-SYMLINK-ESCAPE'
    return None
