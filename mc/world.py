"""Per-process scratch world: home dir, sandbox root, cwd/environ guard.

All scratch lives under one base directory created by the runner (preferably on
/dev/shm), removed by the runner when the check ends.
"""
import os
import pathlib
import shutil
import tempfile

_BASE = None  # set by runner (parent) before forking
_WORLD = None


def pick_scratch_parent() -> str:
    for cand in ('/dev/shm', tempfile.gettempdir()):
        if os.path.isdir(cand) and os.access(cand, os.W_OK | os.X_OK):
            return cand
    return tempfile.gettempdir()


def make_base() -> str:
    global _BASE
    _BASE = tempfile.mkdtemp(prefix='exactly-verif-', dir=pick_scratch_parent())
    return _BASE


def remove_base():
    global _BASE, _WORLD
    if _BASE and os.path.isdir(_BASE):
        _chmod_tree_writable(_BASE)
        shutil.rmtree(_BASE, ignore_errors=True)
    _BASE = None
    _WORLD = None


def _chmod_tree_writable(root):
    for d, dirs, files in os.walk(root):
        try:
            os.chmod(d, 0o700)
        except OSError:
            pass


class World:
    """One scratch world.  `sb` is where exactly creates sandboxes
    (tempfile.tempdir points there), `home` is a directory for test-case files
    and home-directory contents, `ext` is for files "outside" both."""

    def __init__(self, root: str):
        self.root = pathlib.Path(root)
        self.sb = self.root / 'sb'
        self.home = self.root / 'home'
        self.ext = self.root / 'ext'
        for d in (self.sb, self.home, self.ext):
            d.mkdir(parents=True, exist_ok=True)
        self.cwd0 = str(self.home)
        os.chdir(self.cwd0)
        tempfile.tempdir = str(self.sb)
        self.environ0 = dict(os.environ)

    # -- file helpers -------------------------------------------------
    def reset(self):
        """Empty home/, sb/, ext/; restore cwd and environ."""
        self.restore_process_state()
        for d in (self.sb, self.home, self.ext):
            clear_dir(d)
        tempfile.tempdir = str(self.sb)

    def restore_process_state(self):
        try:
            os.chdir(self.cwd0)
        except OSError:
            os.makedirs(self.cwd0, exist_ok=True)
            os.chdir(self.cwd0)
        if dict(os.environ) != self.environ0:
            for k in list(os.environ):
                if k not in self.environ0:
                    del os.environ[k]
            for k, v in self.environ0.items():
                if os.environ.get(k) != v:
                    os.environ[k] = v

    def process_state_diff(self):
        """[] if cwd and environ of this process equal the snapshot."""
        diffs = []
        try:
            cwd = os.getcwd()
        except OSError as ex:
            cwd = 'ERR:%s' % ex
        if cwd != self.cwd0:
            diffs.append('cwd %s != %s' % (cwd, self.cwd0))
        env = dict(os.environ)
        if env != self.environ0:
            for k in sorted(set(env) | set(self.environ0)):
                if env.get(k) != self.environ0.get(k):
                    diffs.append('environ[%s]: %r != %r' % (k, env.get(k), self.environ0.get(k)))
        return diffs

    def write(self, rel: str, text: str, base=None) -> pathlib.Path:
        p = (base or self.home) / rel
        p.parent.mkdir(parents=True, exist_ok=True)
        with open(p, 'w', encoding='utf-8', newline='') as f:
            f.write(text)
        return p

    def sandboxes(self):
        return sorted(os.listdir(self.sb))


def clear_dir(d):
    d = str(d)
    for name in os.listdir(d):
        p = os.path.join(d, name)
        if os.path.isdir(p) and not os.path.islink(p):
            try:
                shutil.rmtree(p)
            except OSError:
                _chmod_tree_writable(p)
                shutil.rmtree(p, ignore_errors=True)
        else:
            try:
                os.unlink(p)
            except OSError:
                pass


def snapshot_tree(root) -> dict:
    """{relative path: ('d',) | ('f', bytes) | ('l', target)} — for before/after comparison."""
    root = str(root)
    snap = {}
    for d, dirs, files in os.walk(root):
        dirs.sort()
        rel = os.path.relpath(d, root)
        for name in list(dirs):
            p = os.path.join(d, name)
            r = os.path.normpath(os.path.join(rel, name))
            if os.path.islink(p):
                snap[r] = ('l', os.readlink(p))
                dirs.remove(name)
            else:
                snap[r] = ('d',)
        for name in sorted(files):
            p = os.path.join(d, name)
            r = os.path.normpath(os.path.join(rel, name))
            if os.path.islink(p):
                snap[r] = ('l', os.readlink(p))
            else:
                try:
                    with open(p, 'rb') as f:
                        snap[r] = ('f', f.read())
                except OSError as ex:
                    snap[r] = ('f?', str(ex))
    return snap


def get() -> World:
    """The world of this process (created on first use, under the runner's base)."""
    global _WORLD, _BASE
    if _WORLD is None or _WORLD_PID[0] != os.getpid():
        if _BASE is None:
            make_base()
        root = tempfile.mkdtemp(prefix='w%d-' % os.getpid(), dir=_BASE)
        _WORLD = World(root)
        _WORLD_PID[0] = os.getpid()
    return _WORLD


_WORLD_PID = [None]


def drop():
    """Remove this process's world directory (called by workers when a chunk is done)."""
    global _WORLD
    if _WORLD is not None and _WORLD_PID[0] == os.getpid():
        try:
            os.chdir('/')
        except OSError:
            pass
        _chmod_tree_writable(str(_WORLD.root))
        shutil.rmtree(str(_WORLD.root), ignore_errors=True)
    _WORLD = None
