"""S-LIB: the value pipeline of one type, driven through the public parsers:

    parsers().full.parse(ParseSource(text)) -> resolve(SymbolTable) -> value_of_any_dependency(tcds) -> primitive(app_env)

One long-lived scratch sandbox per process (built with the public constructors).
"""
import os
import pathlib

from mc import world as _world

_ENV = {}


class LibEnv:
    def __init__(self, mem_buff_size=8192):
        from exactly_lib.tcfs import sds as sdsm
        from exactly_lib.tcfs.hds import HomeDs
        from exactly_lib.tcfs.tcds import TestCaseDs
        from exactly_lib.test_case.app_env import ApplicationEnvironment
        from exactly_lib.impls.os_services import os_services_access
        from exactly_lib.util.process_execution.execution_elements import ProcessExecutionSettings
        from exactly_lib.execution import phase_file_space
        from exactly_lib.impls.types.string_source.factory import RootStringSourceFactory
        from exactly_lib.test_case import phase_identifier
        from exactly_lib.util.symbol_table import SymbolTable
        w = _world.get()
        root = w.root / ('lib-%d-%d' % (mem_buff_size, len(_ENV)))
        root.mkdir()
        self.root = root
        (root / 'sds').mkdir()
        self.sds = sdsm.construct_at(str(root / 'sds'))
        self.home = root / 'home'
        self.home.mkdir()
        self.hds = HomeDs(self.home, self.home)
        self.tcds = TestCaseDs(self.hds, self.sds)
        self._pfs = phase_file_space.PhaseTmpFileSpaceFactory(self.sds.internal_tmp_dir)
        self._n = 0
        self._phase = phase_identifier.ASSERT
        self.os_services = os_services_access.new_for_current_os()
        self.mem_buff_size = mem_buff_size
        self._ApplicationEnvironment = ApplicationEnvironment
        self._ProcessExecutionSettings = ProcessExecutionSettings
        self._RootStringSourceFactory = RootStringSourceFactory
        self.empty_symbols = SymbolTable({})
        self.new_space()
        os.chdir(str(self.sds.act_dir))

    def new_space(self):
        """A fresh tmp-file space (as every instruction gets its own)."""
        self._n += 1
        self.space = self._pfs.instruction__main(self._phase, self._n).paths_access
        self.env = self._ApplicationEnvironment(self.os_services, self._ProcessExecutionSettings(10, None),
                                                self.space, self.mem_buff_size)
        self.ssf = self._RootStringSourceFactory(self.space)

    @property
    def act_dir(self) -> pathlib.Path:
        return self.sds.act_dir

    def write_act(self, name, text):
        p = self.sds.act_dir / name
        with open(p, 'w', encoding='utf-8', newline='') as f:
            f.write(text)
        # every file the harness writes gets the SAME modification time: two files of equal size then look alike to a comparison that trusts
        # the stat signature instead of reading them
        os.utime(str(p), (1000000000, 1000000000))
        # ... and because the harness REUSES file names with those equal times, what the standard library has cached about the previous
        # contents of a name (filecmp keeps results per path + stat signature) must be dropped: every execution stands for a separate run
        import filecmp
        filecmp.clear_cache()
        return p

    # ---- parse + resolve -------------------------------------------------------------
    def primitive(self, parser, source_text, symbols=None, validate=True):
        """Parse the *whole* of source_text with `parser`; returns the primitive value.
        Raises LibSyntaxError / LibValidationError."""
        from exactly_lib.section_document.parse_source import ParseSource
        from exactly_lib.section_document.element_parsers.instruction_parser_exceptions import \
            SingleInstructionInvalidArgumentException
        src = ParseSource(source_text)
        try:
            sdv = parser.parse(src)
        except SingleInstructionInvalidArgumentException as ex:
            raise LibSyntaxError(str(ex.error_message))
        rest = src.remaining_source if not src.is_at_eof else ''
        if rest.strip():
            raise LibSyntaxError('unconsumed input: %r' % rest[:80])
        ddv = sdv.resolve(symbols or self.empty_symbols)
        if validate:
            v = ddv.validator
            r = v.validate_pre_sds_if_applicable(self.hds)
            if r is None:
                r = v.validate_post_sds_if_applicable(self.tcds)
            if r is not None:
                raise LibValidationError('validation')
        return ddv.value_of_any_dependency(self.tcds).primitive(self.env)

    def model_str(self, s):
        return self.ssf.of_const_str(s)

    def model_file(self, path):
        return self.ssf.of_file__poorly_described(pathlib.Path(path))


class LibSyntaxError(Exception):
    pass


class LibValidationError(Exception):
    pass


def env(mem_buff_size=8192) -> LibEnv:
    key = (os.getpid(), str(_world.get().root), mem_buff_size)
    e = _ENV.get(key)
    if e is None:
        e = LibEnv(mem_buff_size)
        _ENV[key] = e
    return e


def parsers(kind):
    if kind == 'text-matcher':
        from exactly_lib.impls.types.string_matcher import parse_string_matcher as m
    elif kind == 'text-transformer':
        from exactly_lib.impls.types.string_transformer import parse_string_transformer as m
    elif kind == 'line-matcher':
        from exactly_lib.impls.types.line_matcher import parse_line_matcher as m
    elif kind == 'integer-matcher':
        from exactly_lib.impls.types.integer_matcher import parse_integer_matcher as m
    elif kind == 'file-matcher':
        from exactly_lib.impls.types.file_matcher import parse_file_matcher as m
    elif kind == 'files-matcher':
        from exactly_lib.impls.types.files_matcher import parse_files_matcher as m
    else:
        raise ValueError(kind)
    return m.parsers()
