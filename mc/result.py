"""Result record produced by a check's run(case) and merged by the runner."""
import collections

MAX_VIOL_PER_RESULT = 8


class Result:
    __slots__ = ('n', 'nontrivial', 'nontrivial_keys', 'outcomes', 'viol', 'nviol',
                 'states', 'trans', 'validated', 'kf', 'stats', 'samples')

    def __init__(self):
        self.n = 0  # real executions of exactly code
        self.nontrivial = 0  # distinct-by-construction non-trivial cases
        self.nontrivial_keys = set()  # or: keys, deduplicated globally
        self.outcomes = collections.Counter()  # distinct observed outcomes
        self.viol = []  # [(case, [err, ...], obs)]
        self.nviol = 0
        self.states = set()  # canonical states (model_checking level)
        self.trans = set()  # canonical transitions
        self.validated = 0  # reference-model traces equal to the implementation's
        self.kf = collections.Counter()  # known-finding id -> hits
        self.stats = collections.Counter()  # free-form counters
        self.samples = []

    def violation(self, case, errs, obs=None):
        self.nviol += 1
        if len(self.viol) < MAX_VIOL_PER_RESULT:
            self.viol.append((case, list(errs), obs))

    def merge(self, other: 'Result', max_viol=60):
        self.n += other.n
        self.nontrivial += other.nontrivial
        self.nontrivial_keys |= other.nontrivial_keys
        self.outcomes.update(other.outcomes)
        self.nviol += other.nviol
        for v in other.viol:
            if len(self.viol) < max_viol:
                self.viol.append(v)
        self.states |= other.states
        self.trans |= other.trans
        self.validated += other.validated
        self.kf.update(other.kf)
        self.stats.update(other.stats)
        for s in other.samples:
            if len(self.samples) < 12:
                self.samples.append(s)
