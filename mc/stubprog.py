"""A MainProgram built with the *public* constructor from the default setup plus one extra
instruction, `stub`, available in every phase:

    stub STEP KIND [TAG]      STEP in {sym, pre, post, main, none, exeinput (in [setup]: the stdin of the action fails its validation; KIND MSG or EXC)}; KIND in {VE, HEr, HEx, EXC, FAIL, UNDEF}

It logs every step it goes through in LOG and fails at STEP in the way KIND says
(same fault kinds as the C01 stubs).  This makes every ending of C01 reachable from a test-case
*file* (C02, C04, C16, C18).  `mem_buff_size` can be chosen (C14).
"""
import io

LOG = []
_CACHE = {}


def main_program(mem_buff_size=None):
    key = mem_buff_size
    if key in _CACHE:
        return _CACHE[key]
    from exactly_lib import program_info
    from exactly_lib.cli import main_program as mpm
    from exactly_lib.cli.test_case_def import TestCaseDefinitionForMainProgram
    from exactly_lib.cli_default.program_modes import test_suite
    from exactly_lib.cli_default.program_modes.test_case import builtin_symbols, default_instructions_setup, \
        test_case_handling_setup
    from exactly_lib.common import instruction_name_and_argument_splitter
    from exactly_lib.common.instruction_setup import SingleInstructionSetup
    from exactly_lib.execution import sandbox_dir_resolving
    from exactly_lib.processing.instruction_setup import TestCaseParsingSetup, InstructionsSetup
    from exactly_lib.processing.parse.act_phase_source_parser import ActPhaseParser
    from exactly_lib.section_document.element_parsers.section_element_parsers import \
        InstructionParserWithoutSourceFileLocationInfo
    from exactly_lib.test_case.phases.configuration import ConfigurationPhaseInstruction
    from exactly_lib.test_case.phases.setup.instruction import SetupPhaseInstruction
    from exactly_lib.test_case.phases.assert_ import AssertPhaseInstruction
    from exactly_lib.test_case.phases.before_assert import BeforeAssertPhaseInstruction
    from exactly_lib.test_case.phases.cleanup import CleanupPhaseInstruction
    from exactly_lib.test_case.result import sh, svh, pfh
    from exactly_lib.test_case.hard_error import HardErrorException
    from exactly_lib.common.report_rendering import text_docs
    from exactly_lib.symbol.sdv_structure import SymbolReference
    from exactly_lib.type_val_deps.sym_ref.w_str_rend_restrictions import reference_restrictions
    from exactly_lib.test_case.phases.act.adv_w_validation import AdvWValidation

    msg = text_docs.single_pre_formatted_line_object('stub failure')

    def hit(phase, step, spec):
        LOG.append((phase, step, spec[2]))
        return spec[1] if spec[0] == step else None

    def svh_res(k):
        if k is None:
            return svh.new_svh_success()
        if k == 'VE':
            return svh.new_svh_validation_error(msg)
        if k == 'HEr':
            return svh.new_svh_hard_error(msg)
        if k == 'HEx':
            raise HardErrorException(msg)
        raise ZeroDivisionError('injected')

    def sh_res(k):
        if k is None:
            return sh.new_sh_success()
        if k == 'HEr':
            return sh.new_sh_hard_error(msg)
        if k == 'HEx':
            raise HardErrorException(msg)
        raise ZeroDivisionError('injected')

    def sym_res(k):
        if k is None:
            return []
        if k == 'UNDEF':
            return [SymbolReference('undefined_stub_sym', reference_restrictions.is_any_type_w_str_rendering())]
        raise ZeroDivisionError('injected')

    class Conf(ConfigurationPhaseInstruction):
        def __init__(s, spec):
            s.spec = spec

        def main(s, b):
            return svh_res(hit('conf', 'main', s.spec))

    class S(SetupPhaseInstruction):
        def __init__(s, spec):
            s.spec = spec

        def symbol_usages(s):
            return sym_res(hit('setup', 'sym', s.spec))

        def validate_pre_sds(s, env):
            return svh_res(hit('setup', 'pre', s.spec))

        def main(s, env, settings, os_services, sb):
            if s.spec[0] == 'exeinput':
                # the step act/validate-exe-input: a stdin of the action whose validation fails in the given way (MSG: a message; EXC: raises)
                kind, tag = s.spec[1], s.spec[2]

                class StdinAdv(AdvWValidation):
                    def validate(self_):
                        LOG.append(('act', 'exeinput', tag))
                        if kind == 'MSG':
                            return msg
                        raise ZeroDivisionError('injected')

                    def resolve(self_, environment):
                        return None

                sb.stdin = StdinAdv()
                LOG.append(('setup', 'main', tag))
                return sh.new_sh_success()
            return sh_res(hit('setup', 'main', s.spec))

        def validate_post_setup(s, env):
            return svh_res(hit('setup', 'post', s.spec))

    class B(BeforeAssertPhaseInstruction):
        def __init__(s, spec):
            s.spec = spec

        def symbol_usages(s):
            return sym_res(hit('before-assert', 'sym', s.spec))

        def validate_pre_sds(s, env):
            return svh_res(hit('before-assert', 'pre', s.spec))

        def validate_post_setup(s, env):
            return svh_res(hit('before-assert', 'post', s.spec))

        def main(s, env, settings, os_services):
            return sh_res(hit('before-assert', 'main', s.spec))

    class A(AssertPhaseInstruction):
        def __init__(s, spec):
            s.spec = spec

        def symbol_usages(s):
            return sym_res(hit('assert', 'sym', s.spec))

        def validate_pre_sds(s, env):
            return svh_res(hit('assert', 'pre', s.spec))

        def validate_post_setup(s, env):
            return svh_res(hit('assert', 'post', s.spec))

        def main(s, env, settings, os_services):
            k = hit('assert', 'main', s.spec)
            if k is None:
                return pfh.new_pfh_pass()
            if k == 'FAIL':
                return pfh.new_pfh_fail(msg)
            if k == 'HEr':
                return pfh.new_pfh_hard_error(msg)
            if k == 'HEx':
                raise HardErrorException(msg)
            raise ZeroDivisionError('injected')

    class Cl(CleanupPhaseInstruction):
        def __init__(s, spec):
            s.spec = spec

        def symbol_usages(s):
            return sym_res(hit('cleanup', 'sym', s.spec))

        def validate_pre_sds(s, env):
            return svh_res(hit('cleanup', 'pre', s.spec))

        def main(s, env, settings, os_services, prev):
            LOG.append(('cleanup', 'PREV', prev.name))
            return sh_res(hit('cleanup', 'main', s.spec))

    def parser_for(cls):
        class P(InstructionParserWithoutSourceFileLocationInfo):
            def parse_from_source(self, source):
                words = source.remaining_part_of_current_line.split()
                source.consume_current_line()
                if len(words) < 2:
                    from exactly_lib.section_document.element_parsers.instruction_parser_exceptions import \
                        SingleInstructionInvalidArgumentException
                    raise SingleInstructionInvalidArgumentException('stub STEP KIND [TAG]')
                return cls((words[0], words[1], words[2] if len(words) > 2 else ''))

        return SingleInstructionSetup(P(), None)

    d = default_instructions_setup.INSTRUCTIONS_SETUP

    def plus(dct, cls):
        n = dict(dct)
        n['stub'] = parser_for(cls)
        return n

    setup = InstructionsSetup(plus(d.config_instruction_set, Conf),
                              plus(d.setup_instruction_set, S),
                              plus(d.before_assert_instruction_set, B),
                              plus(d.assert_instruction_set, A),
                              plus(d.cleanup_instruction_set, Cl))
    mp = mpm.MainProgram(test_case_handling_setup.setup(),
                         sandbox_dir_resolving.mk_tmp_dir_with_prefix(program_info.PROGRAM_NAME + '-'),
                         TestCaseDefinitionForMainProgram(
                             TestCaseParsingSetup(instruction_name_and_argument_splitter.splitter, setup,
                                                  ActPhaseParser()),
                             builtin_symbols.ALL),
                         test_suite.test_suite_definition(),
                         io.DEFAULT_BUFFER_SIZE if mem_buff_size is None else mem_buff_size)
    _CACHE[key] = mp
    return mp
