import io, sys, os, shutil
from exactly_lib.cli_default.default_main_program_setup import default_main_program
from exactly_lib.util.file_utils.std import StdOutputFiles
mp = default_main_program()
def run(args):
    o = io.StringIO(); e = io.StringIO()
    rc = mp.execute(args, StdOutputFiles(o, e))
    return rc, o.getvalue(), e.getvalue()
def tree(d):
    out=[]
    for r,ds,fs in os.walk(d):
        for x in ds: out.append(os.path.relpath(os.path.join(r,x),d)+'/')
        for x in fs: out.append(os.path.relpath(os.path.join(r,x),d)+':'+open(os.path.join(r,x)).read())
    return sorted(out)
def case(body):
    open('c.case','w').write("[setup]\ndir d = {\n%s\n}\n[act]\n[assert]\n" % body)
    rc,o,e = run(['--keep','c.case'])
    d=o.strip()
    ident = e.split('\n')[0]
    t = tree(d+'/act') if d else None
    if d: shutil.rmtree(d)
    print(repr(body), '->', ident, t, ([l for l in e.split('\n') if l.strip()][-1][:70] if rc else ''))
case("file a")
case("file a = 'x'\nfile a += 'y'")
case("file a\nfile a")
case("file a += 'y'")
case("dir s = { file b }\ndir s += { file c }")
case("dir s\nfile s")
case("file s/t/u = 'q'")
case("file ../x")
case("file /tmp/x/abs1")
case("file s/../y")
case("dir s = { file ../z }")
case("file a\ndir a/b")
