import io, sys, os, shutil, subprocess, types, tempfile
from exactly_lib.util.process_execution import process_executor as pe
from exactly_lib.processing import preprocessor as pp
calls=[]
script={}
def fake_call(args, stdin=None, stdout=None, stderr=None, env=None, timeout=None, shell=False, cwd=None):
    sin = None
    if hasattr(stdin,'read'):
        try: sin = stdin.read()
        except Exception as ex: sin = repr(ex)
    name = args.split()[0] if isinstance(args,str) else os.path.basename(args[0]) if not args[0].endswith('python') and 'python' not in args[0] else 'python'
    calls.append(dict(args=args, shell=shell, timeout=timeout, cwd=cwd or os.getcwd(), stdin=sin, env=None if env is None else {k:env[k] for k in ('X','Y') if k in env}))
    beh = script.get(name, {})
    for f,txt in ((stdout,beh.get('out','')),(stderr,beh.get('err',''))):
        if hasattr(f,'write'):
            f.write(txt); f.flush()
        elif isinstance(f,int) and f>=0:
            os.write(f, txt.encode())
    if beh.get('stdin_to_out') and sin is not None:
        stdout.write(sin); stdout.flush()
    return beh.get('exit',0)
shim = types.SimpleNamespace(call=fake_call, TimeoutExpired=subprocess.TimeoutExpired, DEVNULL=subprocess.DEVNULL)
pe.subprocess = shim
pp.subprocess = shim
from exactly_lib.cli_default.default_main_program_setup import default_main_program
from exactly_lib.util.file_utils.std import StdOutputFiles
mp = default_main_program()
def run(args):
    o = io.StringIO(); e = io.StringIO()
    rc = mp.execute(args, StdOutputFiles(o, e))
    return rc, o.getvalue(), e.getvalue()
def case(txt, args=(), name='c.case', show=True):
    calls.clear()
    open(name,'w').write(txt)
    rc,o,e = run(list(args)+[name])
    if show:
        print('==>', rc, o.strip(), '|', ' / '.join(l for l in e.split('\n') if l.strip())[:300])
        for c in calls: print('   ', c)
    return rc,o,e
