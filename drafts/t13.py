from shim import *
script['cat']={'stdin_to_out':True}
case("""[setup]
timeout = 7
run % p1
$ p2
% p3
file f = -stdout-from % p4
stdin = -stdout-from % p5
env X = -stdout-from % p6
[act]
% atc
[before-assert]
run % p7
[assert]
stdout -transformed-by run % cat
  equals ''
stdout run % p9
exists f : run % p10
run % p11
stdout equals -stdout-from % p12
[cleanup]
$ p13
""")
