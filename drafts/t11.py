import io, sys, os, shutil
from exactly_lib.cli_default.default_main_program_setup import default_main_program
from exactly_lib.util.file_utils.std import StdOutputFiles
mp = default_main_program()
def run(args):
    o = io.StringIO(); e = io.StringIO()
    rc = mp.execute(args, StdOutputFiles(o, e))
    return rc, o.getvalue(), e.getvalue()
def case(expr, instr="exit-code"):
    open('c.case','w').write("[act]\n[assert]\n%s %s\n" % (instr, expr))
    rc,o,e = run(['c.case'])
    msg = [l for l in e.split('\n') if l.strip()][-1] if rc==65 else ''
    print(repr(expr), '->', o.strip(), msg[:80])
for ex in ["== 0 || == 1", "== 0 ||\n== 1", "== 0\n|| == 1", "( == 0\n|| == 1 )", "(\n== 0 || == 1\n)", "!\n== 1", "! == 1", "! ! == 1", "( == 0 )", "( ( == 0 ) )", "== 0 &&\n\n  == 0", "== 1 || == 2 && == 3 || == 0", "==  0", "(== 0)", "== 0 ||", "|| == 0", "== 0 == 1", "== 0 )", "( == 0", "!== 1", "== 0 &&&& == 0", "== 0 && == 0 || == 5 &&\n == 6"]:
    case(ex)
