from shim import *
import pathlib, tempfile
from exactly_lib.section_document.parse_source import ParseSource
from exactly_lib.impls.types.string_source import parse as ss_parse
from exactly_lib.util.symbol_table import SymbolTable
from exactly_lib.tcfs.tcds import TestCaseDs
from exactly_lib.tcfs.hds import HomeDs
from exactly_lib.tcfs import sds as sdsm
from exactly_lib.test_case.app_env import ApplicationEnvironment
from exactly_lib.impls.os_services import os_services_access
from exactly_lib.util.process_execution.execution_elements import ProcessExecutionSettings
from exactly_lib.execution import phase_file_space
from exactly_lib.test_case import phase_identifier
print([n for n in dir(ss_parse) if not n.startswith('_')][:40])
root = tempfile.mkdtemp(prefix='vx-')
sds = sdsm.construct_at(root); hds = HomeDs(pathlib.Path(root), pathlib.Path(root)); tcds = TestCaseDs(hds, sds)
space = phase_file_space.PhaseTmpFileSpaceFactory(sds.internal_tmp_dir).instruction__main(phase_identifier.ASSERT, 1).paths_access
ose = os_services_access.new_for_current_os()
def src(text, buf):
    p = ss_parse.default_parser_for(phase_is_after_act=True) if hasattr(ss_parse,'default_parser_for') else None
    sdv = p.parse(ParseSource(text))
    return sdv.resolve(SymbolTable({})).value_of_any_dependency(tcds).primitive(ApplicationEnvironment(ose, ProcessExecutionSettings(5,None), space, buf))
T = 'a\x0cb\nc'
(pathlib.Path(root)/'act'/'f.txt').write_text(T)
script['gen']={'out':T}
for s in ["-contents-of -rel-act f.txt", "-contents-of -rel-act f.txt -transformed-by filter constant true", "-stdout-from % gen", "<<E\na\x0cb\nE\n"]:
    for buf in (1, 100):
        for fr in (False, True):
            x = src(s, buf)
            if fr: x.freeze()
            c = x.contents()
            with c.as_lines as ls: lines = list(ls)
            print(repr(s[:40]), buf, fr, repr(c.as_str), lines, c.may_depend_on_external_resources)
shutil.rmtree(root)
