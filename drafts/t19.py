from shim import *
import tempfile
def run2(args):
    # real files for --act since ATC output goes to the StdOutputFiles given
    with tempfile.TemporaryFile('w+') as o, tempfile.TemporaryFile('w+') as e:
        rc = mp.execute(args, StdOutputFiles(o, e))
        o.seek(0); e.seek(0)
        return rc, o.read(), e.read()
script['atc']={'out':'AOUT\n','err':'AERR\n','exit':7}
open('c.case','w').write("[conf]\nstatus = FAIL\n[act]\n% atc\n[assert]\nexit-code == 7\n")
for a in ([],['--keep'],['--act']):
    rc,o,e = run2(a+['c.case']); print(a, rc, repr(o), repr(e[:80]))
    if a==['--keep']: shutil.rmtree(o.strip())
open('c.case','w').write("[conf]\nstatus = SKIP\n[act]\n% atc\n")
for a in ([],['--keep'],['--act']):
    rc,o,e = run2(a+['c.case']); print(a, rc, repr(o), repr(e[:80]))
open('c.case','w').write("[setup]\nrun % failing\n[act]\n% atc\n")
script['failing']={'exit':1}
for a in ([],['--keep'],['--act']):
    rc,o,e = run2(a+['c.case']); print(a, rc, repr(o), repr(e[:60]))
    if a==['--keep']: shutil.rmtree(o.strip())
open('c.case','w').write("[act]\n% atc\n[cleanup]\nrun % failing\n")
for a in ([],['--act']):
    rc,o,e = run2(a+['c.case']); print(a, rc, repr(o), repr(e[:60]))
for a in (['--nope','c.case'],[],['missing.case'],['--actor'],['--preprocessor','ppx','c.case']):
    rc,o,e = run2(a); print(a, rc, repr(o), repr(e[:70]))
script['ppx']={'exit':2,'err':'pp failed'}
rc,o,e = run2(['--preprocessor','ppx','c.case']); print(rc, repr(o), repr(e[:70]))
