from shim import *
import os
def denote(src, pre="def string S = 'VAL'\n"):
    open('s.case','w').write("[setup]\n%sfile out.txt = %s\n[act]\n" % (pre, src))
    calls.clear()
    rc,o,e = run(['--keep','s.case'])
    d=o.strip()
    try: r = open(os.path.join(d,'act','out.txt')).read()
    except Exception as ex: r = ('ERR', e.split('\n')[0], [l for l in e.split('\n') if l.strip()][-1][:80])
    if d: shutil.rmtree(d, ignore_errors=True)
    return r
for s in ["<<EOF\nl1\n@[S]@\nEOF", "<<EOF\nl1\nEOF ", "<<EOF\nl1\n EOF\nEOF", "<<EOF\nEOFX\nEOF", "<<EOF\n# c\n\n[assert]\nEOF", "<<EOF\nl1", "<<EOF\nl1\nEOF\n", "<<-\nx\n-", "<<E-F\nx\nE-F", "<< EOF\nx\nEOF", "<<EOF x\nx\nEOF", "<<EOF\nEOF",
          ":> a  b @[S]@ 'q' ", ":>", ":>x", "':> x'", "a\\\nb"]:
    print(repr(s), '->', repr(denote(s)))
def argv(line, pre="def string S = 'VAL'\ndef list L = l1 'l 2'\ndef list E =\n"):
    open('s.case','w').write("[setup]\n%srun %% probe %s\n[act]\n" % (pre, line))
    calls.clear()
    rc,o,e = run(['s.case'])
    return calls[0]['args'][1:] if calls else ('ERR', o.strip(), [l for l in e.split('\n') if l.strip()][-1][:80])
for l in ["a b", "@[L]@", '"@[L]@"', "x@[L]@y", "@[E]@ z", '"" \'\'', "a \\\n b", "a :> rest of  line 'q'", "a <<EOF\nhd\nEOF", "-x --y", "( a )", "a ) b", "'(' a", "= : !", "a#b c", "a #b"]:
    print(repr(l), '->', argv(l))
