import pathlib, itertools, time, collections
from exactly_lib.section_document.parse_source import ParseSource
from exactly_lib.section_document import exceptions as sdex
from exactly_lib.section_document.model import ElementType
from exactly_lib.cli_default.program_modes.test_case import default_instructions_setup
from exactly_lib.processing.instruction_setup import TestCaseParsingSetup
from exactly_lib.processing.parse import test_case_parser
from exactly_lib.processing.parse.act_phase_source_parser import ActPhaseParser
from exactly_lib.common import instruction_name_and_argument_splitter
from exactly_lib.processing.test_case_processing import test_case_reference_of_source_file
setup = TestCaseParsingSetup(instruction_name_and_argument_splitter.splitter, default_instructions_setup.INSTRUCTIONS_SETUP, ActPhaseParser())
P = test_case_parser.new_parser(setup)
REF = test_case_reference_of_source_file(pathlib.Path('/tmp/x/zz.case'))
INSTR_PHASES = ['setup','before-assert','assert','cleanup']
# items: (kind, lines)
def items():
    it=[]
    for ph in ['conf','setup','act','before-assert','assert','cleanup']: it.append(('hdr',ph,['[%s]'%ph]))
    it.append(('badhdr',None,['[nophase]']))
    it.append(('malhdr',None,['[setup] x']))
    it.append(('comment',None,['# c']))
    it.append(('blank',None,['']))
    it.append(('space',None,['  ']))
    it.append(('ins1',None,['def string S{k} = v']))
    it.append(('insml',None,['def string S{k} = <<EOF','[assert]','# x','EOF']))
    it.append(('insdesc',None,['`d`','def string S{k} = v']))
    it.append(('insdesc1',None,['`d` def string S{k} = v']))
    it.append(('escaped',None,['\\[x]']))
    return it
IT = items()
def build(seq):
    lines=[]; meta=[]
    for k,(kind,ph,ls) in enumerate(seq):
        start=len(lines)+1
        ls=[l.replace('{k}',str(k)) for l in ls]
        lines+=ls; meta.append((kind,ph,start,ls,k))
    return lines, meta
import re
HDR=re.compile(r'[ \t]*\[')
def expect(meta):
    cur='act'; out=collections.defaultdict(list); actbuf=None
    for (kind,ph,start,ls,k) in meta:
        if cur=='act' and kind not in ('hdr','badhdr','malhdr'):
            # act: line by line; a header-like line ends the act block
            consumed=0
            for j,l in enumerate(ls):
                if HDR.match(l):
                    # header inside item: only '[assert]' in insml
                    name=l.strip()[1:-1]
                    cur=name; actbuf=None; consumed=j+1
                    rest=ls[consumed:]
                    # remaining lines are now in an instruction phase: '# x' comment, 'EOF' -> unknown instruction
                    for jj,r in enumerate(rest):
                        if r.strip()=='' or r.lstrip().startswith('#'): continue
                        return ('err', start+consumed+jj)
                    break
                un = '['+l[2:] if l.startswith('\\[') else l
                if actbuf is None:
                    actbuf=[start+j, []]; out['act'].append(actbuf)
                actbuf[1].append(un)
            continue
        if kind=='hdr': cur=ph; actbuf=None; continue
        if kind=='badhdr' or kind=='malhdr': return ('err', start)
        if kind in ('comment','blank','space'): continue
        if kind=='escaped': return ('err', start)
        if cur=='conf': return ('err', start if kind!='insdesc' else start+1)
        if kind=='insdesc': out[cur].append([start+1, ls[1:]])
        elif kind=='insdesc1': out[cur].append([start, [ls[0][4:]]])
        else: out[cur].append([start, ls])
    return ('ok', out)
def actual(text):
    try:
        tc = P.apply(REF, ParseSource(text))
    except sdex.FileSourceError as ex:
        return ('err', ex.source.first_line_number)
    out=collections.defaultdict(list)
    for name,ph in (('setup_phase','setup'),('act_phase','act'),('before_assert_phase','before-assert'),('assert_phase','assert'),('cleanup_phase','cleanup'),('configuration_phase','conf')):
        for e in getattr(tc,name).elements:
            if e.element_type is ElementType.INSTRUCTION:
                if ph=='act': out[ph].append([e.source.first_line_number, list(e.instruction_info.instruction.source_code().lines)])
                else: out[ph].append([e.source.first_line_number, list(e.source.lines)])
    return ('ok', out)
bad=[]; n=0; t0=time.time(); oc=collections.Counter()
for L in range(0,5):
    for seq in itertools.product(IT, repeat=L):
        lines, meta = build(seq)
        for final_nl in (True, False):
            if not lines and not final_nl: continue
            if not final_nl and lines and lines[-1]=='': continue
            text='\n'.join(lines)+('\n' if final_nl and lines else '')
            exp=expect(meta); got=actual(text); n+=1
            oc[exp[0]]+=1
            e2 = exp if exp[0]=='err' else ('ok', {k:v for k,v in exp[1].items() if v})
            g2 = got if got[0]=='err' else ('ok', {k:v for k,v in got[1].items() if v})
            if e2!=g2: bad.append((text, e2, g2))
print(n, time.time()-t0, len(bad), dict(oc))
seen=set()
for b in bad:
    key=(b[1][0], b[2][0])
    if len([1 for s in seen if s==key])<1 or len(seen)<12:
        print(repr(b[0])); print('  exp', dict(b[1][1]) if b[1][0]=='ok' else b[1]); print('  got', dict(b[2][1]) if b[2][0]=='ok' else b[2]); seen.add(key)
    if len(seen)>12: break
