import itertools, time, collections, pathlib, tempfile, shutil
from exactly_lib.section_document.parse_source import ParseSource
from exactly_lib.impls.types.integer_matcher import parse_integer_matcher
from exactly_lib.impls.types.line_matcher import parse_line_matcher
from exactly_lib.section_document.element_parsers.instruction_parser_exceptions import SingleInstructionInvalidArgumentException
from exactly_lib.util.symbol_table import SymbolTable
from exactly_lib.tcfs.tcds import TestCaseDs
from exactly_lib.tcfs.hds import HomeDs
from exactly_lib.tcfs import sds as sdsm
from exactly_lib.test_case.app_env import ApplicationEnvironment
from exactly_lib.impls.os_services import os_services_access
from exactly_lib.util.process_execution.execution_elements import ProcessExecutionSettings
from exactly_lib.execution import phase_file_space
from exactly_lib.test_case import phase_identifier
root = tempfile.mkdtemp(prefix='vx-')
sds = sdsm.construct_at(root); hds = HomeDs(pathlib.Path(root), pathlib.Path(root)); tcds = TestCaseDs(hds, sds)
space = phase_file_space.PhaseTmpFileSpaceFactory(sds.internal_tmp_dir).instruction__main(phase_identifier.ASSERT, 1).paths_access
env = ApplicationEnvironment(os_services_access.new_for_current_os(), ProcessExecutionSettings(10, None), space, 8192)
def prim(src):
    ps = ParseSource(src)
    sdv = parse_integer_matcher.parsers().full.parse(ps)
    rest = ps.remaining_source if not ps.is_at_eof else ''
    return sdv.resolve(SymbolTable({})).value_of_any_dependency(tcds).primitive(env), rest
LEAVES=[('leaf','== 0'),('leaf','> 1'),('leaf','constant true'),('leaf','constant false')]
def trees(d):
    if d==0:
        yield from LEAVES; return
    yield from trees(d-1)
    subs=list(trees(d-1))
    for s in subs: yield ('not', s)
    for op in ('and','or'):
        for a,b in itertools.product(subs, repeat=2): yield (op,[a,b])
    for op in ('and','or'):
        for a,b,c in itertools.product(LEAVES, repeat=3): yield (op,[a,b,c])
def ev(t,x):
    k=t[0]
    if k=='leaf':
        s=t[1]
        return {'== 0':x==0,'> 1':x>1,'constant true':True,'constant false':False}[s]
    if k=='not': return not ev(t[1],x)
    if k=='and': return all(ev(c,x) for c in t[1])
    return any(ev(c,x) for c in t[1])
PREC={'or':1,'and':2,'not':3,'leaf':4}
def render(t, mode, sep=' ', ctx=0):
    """mode: 'min' or 'full'"""
    k=t[0]
    if k=='leaf': s=t[1]
    elif k=='not':
        inner=render(t[1],mode,sep,3)
        s='!'+sep+inner
    else:
        op={'and':'&&','or':'||'}[k]
        s=(' '+op+sep).join(render(c,mode,sep,PREC[k]+ (1 if c[0]==k else 0) ) for c in t[1])
    need = (mode=='full' and k!='leaf') or PREC[k]<ctx
    return '('+sep+s+sep+')' if need else s
seen=set(); n=0; bad=[]; t0=time.time()
for t in trees(2):
    key=repr(t)
    if key in seen: continue
    seen.add(key)
    exp=[ev(t,x) for x in range(0,4)]
    for mode in ('min','full'):
        for sep in (' ','\n','  \n '):
            if mode=='min' and sep!=' ' and t[0]=='leaf': continue
            src=render(t,mode,sep)
            # with min-parens and newline separators outside parens: only after operators -> our render puts sep after op and after '!' and inside parens: all 'must accept'
            try:
                m,rest=prim(src)
            except SingleInstructionInvalidArgumentException as ex:
                bad.append((src,'SYNTAX',str(ex)[:60])); continue
            got=[m.matches_w_trace(x).value for x in range(0,4)]; n+=1
            if got!=exp or rest.strip(): bad.append((src,got,exp,rest))
print(len(seen), n, time.time()-t0, len(bad))
for b in bad[:8]: print(b)
shutil.rmtree(root)
