import time, tempfile, pathlib, os, itertools, re, shutil, collections
from exactly_lib.section_document.parse_source import ParseSource
from exactly_lib.impls.types.string_matcher import parse_string_matcher
from exactly_lib.impls.types.string_transformer import parse_string_transformer
from exactly_lib.util.symbol_table import SymbolTable
from exactly_lib.tcfs.tcds import TestCaseDs
from exactly_lib.tcfs.hds import HomeDs
from exactly_lib.tcfs import sds as sdsm
from exactly_lib.test_case.app_env import ApplicationEnvironment
from exactly_lib.impls.os_services import os_services_access
from exactly_lib.util.process_execution.execution_elements import ProcessExecutionSettings
from exactly_lib.execution import phase_file_space
from exactly_lib.impls.types.string_source.factory import RootStringSourceFactory
from exactly_lib.test_case import phase_identifier
root = tempfile.mkdtemp(prefix='vx-')
sds = sdsm.construct_at(root); hds = HomeDs(pathlib.Path(root), pathlib.Path(root)); tcds = TestCaseDs(hds, sds)
space = phase_file_space.PhaseTmpFileSpaceFactory(sds.internal_tmp_dir).instruction__main(phase_identifier.ASSERT, 1).paths_access
ose = os_services_access.new_for_current_os()
env = ApplicationEnvironment(ose, ProcessExecutionSettings(10, None), space, 8192)
ssf = RootStringSourceFactory(space)
def transformer(src):
    sdv = parse_string_transformer.parsers().full.parse(ParseSource(src))
    return sdv.resolve(SymbolTable({})).value_of_any_dependency(tcds).primitive(env)
def lines(t): return re.findall(r'[^\n]*\n|[^\n]+', t)
def ref_replace(rx, rep, pres):
    c = re.compile(rx)
    def f(t):
        out=[]
        for l in lines(t):
            if pres and l.endswith('\n'): out.append(c.sub(rep, l[:-1])+'\n')
            else: out.append(c.sub(rep, l))
        return ''.join(out)
    return f
specs = []
def q(s): return "'"+s+"'"
for rx in ['a','.','a*','^','$','B$','^a',r'\s',r'\n','(a)(B)', 'x*', ' ']:
    for rep in ['', 'x', r'\n', 'x\\ny', r'\\']:
        if rep==r'\1' and '(' not in rx: continue
        for pres in (False, True):
            specs.append(("replace %s%s %s" % ('-preserve-new-lines ' if pres else '', q(rx), q(rep)), ref_replace(rx, rep, pres)))
specs += [("strip", lambda t: t.strip()), ("strip -trailing-space", lambda t: t.rstrip()), ("strip -trailing-new-lines", lambda t: t.rstrip('\n')),
          ("char-case -to-upper", str.upper), ("char-case -to-lower", str.lower), ("identity", lambda t: t),
          ("grep a", lambda t: ''.join(l for l in lines(t) if re.search('a', l.rstrip('\n')))),
          ("grep -full a", lambda t: ''.join(l for l in lines(t) if re.fullmatch('a', l.rstrip('\n')))),
          ("filter contents is-empty", lambda t: ''.join(l for l in lines(t) if l.rstrip('\n')=='')),
          ("filter line-num >= 2", lambda t: ''.join(lines(t)[1:])),
          ]
texts = [''.join(t) for n in range(0,6) for t in itertools.product('aB \n.', repeat=n)]
print(len(texts), len(specs))
bad=collections.defaultdict(list); n=0
t0=time.time()
for src, ref in specs:
    tr = transformer(src)
    for tx in texts:
        got = tr.transform(ssf.of_const_str(tx)).contents().as_str
        n+=1
        try: exp = ref(tx)
        except Exception as ex: exp = ('EXC', str(ex))
        if got != exp:
            bad[src].append((tx, got, exp))
print(n, time.time()-t0)
for k,v in bad.items(): print(k, len(v), v[0])
shutil.rmtree(root)
