import time, tempfile, pathlib, os, itertools, re, shutil, collections
from exactly_lib.section_document.parse_source import ParseSource
from exactly_lib.impls.types.string_matcher import parse_string_matcher
from exactly_lib.util.symbol_table import SymbolTable
from exactly_lib.tcfs.tcds import TestCaseDs
from exactly_lib.tcfs.hds import HomeDs
from exactly_lib.tcfs import sds as sdsm
from exactly_lib.test_case.app_env import ApplicationEnvironment
from exactly_lib.impls.os_services import os_services_access
from exactly_lib.util.process_execution.execution_elements import ProcessExecutionSettings
from exactly_lib.execution import phase_file_space
from exactly_lib.impls.types.string_source.factory import RootStringSourceFactory
from exactly_lib.test_case import phase_identifier
root = tempfile.mkdtemp(prefix='vx-')
sds = sdsm.construct_at(root); hds = HomeDs(pathlib.Path(root), pathlib.Path(root)); tcds = TestCaseDs(hds, sds)
space = phase_file_space.PhaseTmpFileSpaceFactory(sds.internal_tmp_dir).instruction__main(phase_identifier.ASSERT, 1).paths_access
ose = os_services_access.new_for_current_os()
env = ApplicationEnvironment(ose, ProcessExecutionSettings(10, None), space, 8192)
ssf = RootStringSourceFactory(space)
def matcher(src):
    sdv = parse_string_matcher.parsers().full.parse(ParseSource(src))
    return sdv.resolve(SymbolTable({})).value_of_any_dependency(tcds).primitive(env)
def lines(t): return re.findall(r'[^\n]*\n|[^\n]+', t)
def lm(t): return [l.rstrip('\n') if l.endswith('\n') else l for l in lines(t)]
import operator
OPS={'==':operator.eq,'!=':operator.ne,'<':operator.lt,'<=':operator.le,'>':operator.gt,'>=':operator.ge}
specs=[("is-empty", lambda t: t=='')]
exp_file = pathlib.Path(root)/'act'/'exp.txt'
for s in ['', 'a', 'a\n', 'a\nB', ' ', '\n']:
    specs.append(("equals <<E\n%sE\n" % s if s.endswith('\n') else "equals '%s'" % s if '\n' not in s else None, (lambda s: lambda t: t==s)(s)))
specs=[x for x in specs if x[0]]
exp_file.write_text('a\nB')
specs.append(("equals -contents-of -rel-act exp.txt", lambda t: t=='a\nB'))
for rx in ['a','^a$','.','a.B','^$',r'a\nB','B|a ', '']:
    specs.append(("matches '%s'" % rx, (lambda rx: lambda t: re.search(rx,t) is not None)(rx)))
    specs.append(("matches -full '%s'" % rx, (lambda rx: lambda t: re.fullmatch(rx,t) is not None)(rx)))
for op in OPS:
    for k in range(0,4):
        specs.append(("num-lines %s %d" % (op,k), (lambda op,k: lambda t: OPS[op](len(lines(t)),k))(op,k)))
for qn,qf in (('every',all),('any',any)):
    specs.append(("%s line : contents is-empty" % qn, (lambda qf: lambda t: qf(l=='' for l in lm(t)))(qf)))
    specs.append(("%s line : contents matches a" % qn, (lambda qf: lambda t: qf(re.search('a',l) is not None for l in lm(t)))(qf)))
    specs.append(("%s line : line-num <= 1" % qn, (lambda qf: lambda t: qf(i<=1 for i,l in enumerate(lm(t),1)))(qf)))
    specs.append(("%s line : ( line-num == 2 && contents equals 'B' )" % qn, (lambda qf: lambda t: qf(i==2 and l=='B' for i,l in enumerate(lm(t),1)))(qf)))
texts = [''.join(t) for n in range(0,6) for t in itertools.product('aB \n.', repeat=n)]
print(len(texts), len(specs))
bad=collections.defaultdict(list); n=0
fp = pathlib.Path(root)/'act'/'model.txt'
t0=time.time()
for kind in ('str','file'):
    for src, ref in specs:
        m = matcher(src)
        for tx in (texts if kind=='str' else texts[:800]):
            if kind=='str': model = ssf.of_const_str(tx)
            else:
                fp.write_text(tx); model = ssf.of_file__poorly_described(fp)
            got = m.matches_w_trace(model).value
            n+=1
            exp = ref(tx)
            if got != exp: bad[(kind,src)].append((tx, got, exp))
print(n, time.time()-t0)
for k,v in bad.items(): print(k, len(v), v[:2])
shutil.rmtree(root)
