import pathlib, tempfile, time, os, itertools, collections, shutil
from exactly_lib.execution.full_execution import execution as full
from exactly_lib.execution.configuration import ExecutionConfiguration
from exactly_lib.test_case import test_case_doc
from exactly_lib.test_case.phases.configuration import ConfigurationBuilder, ConfigurationPhaseInstruction
from exactly_lib.test_case.phases.setup.instruction import SetupPhaseInstruction
from exactly_lib.test_case.phases.assert_ import AssertPhaseInstruction
from exactly_lib.test_case.phases.before_assert import BeforeAssertPhaseInstruction
from exactly_lib.test_case.phases.cleanup import CleanupPhaseInstruction
from exactly_lib.test_case.phases.act.actor import Actor, ActionToCheck, ParseException
from exactly_lib.test_case.result import sh, svh, pfh, eh
from exactly_lib.test_case.hard_error import HardErrorException
from exactly_lib.common.report_rendering import text_docs
from exactly_lib.section_document.model import SectionContents
from exactly_lib.section_document.element_builder import SectionContentElementBuilder
from exactly_lib.section_document.source_location import FileLocationInfo
from exactly_lib.util.line_source import LineSequence
from exactly_lib.util.name_and_value import NameAndValue
from exactly_lib.util.symbol_table import SymbolTable
from exactly_lib.impls.os_services import os_services_access
from exactly_lib.execution import sandbox_dir_resolving
from exactly_lib.definitions import os_proc_env
from exactly_lib.test_case.test_case_status import TestCaseStatus
from exactly_lib.symbol.sdv_structure import SymbolReference
from exactly_lib.type_val_deps.sym_ref.w_str_rend_restrictions import reference_restrictions
scr = tempfile.mkdtemp(prefix='vx-c01-'); tempfile.tempdir = scr
LOG=[]; PLAN={}
msg = text_docs.single_pre_formatted_line_object('m')
def act(key, kinds):
    """key=(phase,step,idx). returns result per plan"""
    LOG.append(key)
    k = PLAN.get(key)
    return k
def svh_res(key):
    k = act(key, None)
    if k is None: return svh.new_svh_success()
    if k=='VE': return svh.new_svh_validation_error(msg)
    if k=='HEr': return svh.new_svh_hard_error(msg)
    if k=='HEx': raise HardErrorException(msg)
    if k=='EXC': raise ZeroDivisionError('x')
    raise AssertionError(k)
def sh_res(key):
    k = act(key, None)
    if k is None: return sh.new_sh_success()
    if k=='HEr': return sh.new_sh_hard_error(msg)
    if k=='HEx': raise HardErrorException(msg)
    if k=='EXC': raise ZeroDivisionError('x')
    raise AssertionError(k)
def sym_res(key):
    k = act(key, None)
    if k is None: return []
    if k=='UNDEF': return [SymbolReference('undefined_sym', reference_restrictions.is_any_type_w_str_rendering())]
    if k=='EXC': raise ZeroDivisionError('x')
class Conf(ConfigurationPhaseInstruction):
    def __init__(s,i,status=None): s.i=i; s.status=status
    def main(s, b):
        if s.status is not None: b.set_test_case_status(s.status)
        return svh_res(('conf','main',s.i))
class S(SetupPhaseInstruction):
    def __init__(s,i): s.i=i
    def symbol_usages(s): return sym_res(('setup','sym',s.i))
    def validate_pre_sds(s, env): return svh_res(('setup','pre',s.i))
    def main(s, env, settings, os_services, sb): return sh_res(('setup','main',s.i))
    def validate_post_setup(s, env): return svh_res(('setup','post',s.i))
class B(BeforeAssertPhaseInstruction):
    def __init__(s,i): s.i=i
    def symbol_usages(s): return sym_res(('before-assert','sym',s.i))
    def validate_pre_sds(s, env): return svh_res(('before-assert','pre',s.i))
    def validate_post_setup(s, env): return svh_res(('before-assert','post',s.i))
    def main(s, env, settings, os_services): return sh_res(('before-assert','main',s.i))
class A(AssertPhaseInstruction):
    def __init__(s,i): s.i=i
    def symbol_usages(s): return sym_res(('assert','sym',s.i))
    def validate_pre_sds(s, env): return svh_res(('assert','pre',s.i))
    def validate_post_setup(s, env): return svh_res(('assert','post',s.i))
    def main(s, env, settings, os_services):
        k = act(('assert','main',s.i), None)
        if k is None: return pfh.new_pfh_pass()
        if k=='FAIL': return pfh.new_pfh_fail(msg)
        if k=='HEr': return pfh.new_pfh_hard_error(msg)
        if k=='HEx': raise HardErrorException(msg)
        if k=='EXC': raise ZeroDivisionError('x')
class C(CleanupPhaseInstruction):
    def __init__(s,i): s.i=i
    def symbol_usages(s): return sym_res(('cleanup','sym',s.i))
    def validate_pre_sds(s, env): return svh_res(('cleanup','pre',s.i))
    def main(s, env, settings, os_services, prev):
        LOG.append(('PREV', prev.name)); return sh_res(('cleanup','main',s.i))
class Atc(ActionToCheck):
    def symbol_usages(s): return sym_res(('act','sym',0))
    def validate_pre_sds(s, env): return svh_res(('act','pre',0))
    def validate_post_setup(s, env): return svh_res(('act','post',0))
    def prepare(s, env, os_services): return sh_res(('act','prepare',0))
    def execute(s, env, os_services, atc_input, output_files):
        k = act(('act','execute',0), None)
        if k is None: return eh.new_eh_exit_code(0)
        if k=='HEr': 
            from exactly_lib.test_case.result.failure_details import FailureDetails
            return eh.new_eh_hard_error(FailureDetails.new_constant_message('m'))
        if k=='HEx': raise HardErrorException(msg)
        if k=='EXC': raise ZeroDivisionError('x')
class Act(Actor):
    def parse(s, instructions):
        k = act(('act','parse',0), None)
        if k=='PARSE': raise ParseException(msg)
        if k=='EXC': raise ZeroDivisionError('x')
        if k=='HEx': raise HardErrorException(msg)
        return Atc()
b = SectionContentElementBuilder(FileLocationInfo(pathlib.Path('/tmp/x')))
def sec(instrs, base):
    return SectionContents(tuple(b.new_instruction(LineSequence(base+n,('l',)), ins, None) for n,ins in enumerate(instrs)))
n=2
def mk(status):
    return test_case_doc.TestCase(sec([Conf(0,status),Conf(1)],10), sec([S(i) for i in range(n)],20), sec([],30), sec([B(i) for i in range(n)],40), sec([A(i) for i in range(n)],50), sec([C(i) for i in range(n)],60))
conf = ExecutionConfiguration(os_proc_env.ENV_VARS_GETTER__DEFAULT, None, 5, os_services_access.new_for_current_os(),
      sandbox_dir_resolving.mk_tmp_dir_with_prefix('sds-'), 8192, SymbolTable({}), None)
SVH=['VE','HEr','HEx','EXC']; SH=['HEr','HEx','EXC']; SYM=['UNDEF','EXC']
points=[]
for i in range(2): points.append((('conf','main',i),SVH))
points += [(('act','parse',0),['PARSE','EXC','HEx']),(('act','sym',0),SYM),(('act','pre',0),SVH),(('act','post',0),SVH),(('act','prepare',0),SH),(('act','execute',0),SH)]
for ph,mains in (('setup',SH),('before-assert',SH),('assert',SH+['FAIL'])):
    for i in range(n):
        points += [((ph,'sym',i),SYM),((ph,'pre',i),SVH),((ph,'post',i),SVH),((ph,'main',i),mains)]
for i in range(n):
    points += [(('cleanup','sym',i),SYM),(('cleanup','pre',i),SVH),(('cleanup','main',i),SH)]
singles=[{}]+[{k:kind} for k,kinds in points for kind in kinds]
print(len(singles))
STATUS_OF={'VE':'VALIDATION_ERROR','HEr':'HARD_ERROR','HEx':'HARD_ERROR','EXC':'INTERNAL_ERROR','UNDEF':'VALIDATION_ERROR','PARSE':'SYNTAX_ERROR','FAIL':'FAIL'}
PHASE_ORDER=['setup','act','before-assert','assert','cleanup']
viol=[]; outcomes=collections.Counter(); nrun=0
t0=time.time()
for status in (TestCaseStatus.PASS, TestCaseStatus.FAIL, TestCaseStatus.SKIP):
  for plan in singles:
    for cplan in [{}]+[{('cleanup','main',i):k} for i in range(n) for k in SH]:
        if cplan and any(k[0]=='cleanup' and k[1]=='main' for k in plan): continue
        PLAN.clear(); PLAN.update(plan); PLAN.update(cplan); LOG.clear()
        before=set(os.listdir(scr))
        cb = ConfigurationBuilder(pathlib.Path('/tmp/x'), pathlib.Path('/tmp/x'), NameAndValue('stub', Act()))
        r = full.execute(conf, cb, False, mk(status)); nrun+=1
        trace=[e for e in LOG if e[0]!='PREV']; prevs=[e[1] for e in LOG if e[0]=='PREV']
        fails=[e for e in trace if e in PLAN]
        st=r.status.name
        outcomes[st]+=1
        sandbox = r.sds is not None
        errs=[]
        if set(os.listdir(scr))!=before: errs.append('sandbox not removed')
        mains=[e for e in trace if e[1] in ('main','prepare','execute') and e[0]!='conf']
        vals=[e for e in trace if e[1] in ('sym','pre')]
        if mains and vals and max(trace.index(v) for v in vals) > min(trace.index(m) for m in mains): errs.append('I1')
        if len(set(trace))!=len(trace): errs.append('dup step')
        order=[PHASE_ORDER.index(e[0]) for e in mains]
        if order!=sorted(order): errs.append('I2 phase order')
        for ph in PHASE_ORDER:
            idx=[e[2] for e in mains if e[0]==ph and e[1]=='main']
            if idx!=sorted(idx): errs.append('I2 file order')
        if fails:
            first=fails[0]; after=trace[trace.index(first)+1:]
            fwd=[e for e in after if not (e[0]=='cleanup' and e[1]=='main')]
            if fwd: errs.append('I3 forward after failure %s'%fwd)
        cmains=[e for e in trace if e[0]=='cleanup' and e[1]=='main']
        if sandbox:
            if not cmains: errs.append('I4 no cleanup')
            if len(set(prevs))>1: errs.append('I4 prev varies')
        else:
            if mains: errs.append('I4 mains without sandbox')
        # I5
        if status is TestCaseStatus.SKIP and not [f for f in fails if f[0]=='conf']:
            if st!='SKIPPED' or [e for e in trace if e[0]!='conf']: errs.append('SKIP')
        elif fails:
            allowed={STATUS_OF[PLAN[fails[0]]]} | ({STATUS_OF[PLAN[f]] for f in fails if f[0]=='cleanup'})
            if status is TestCaseStatus.FAIL: allowed={ 'XFAIL' if a=='FAIL' else a for a in allowed}
            if st not in allowed: errs.append('I5 status %s not in %s'%(st,allowed))
            if st in ('PASS','XPASS','SKIPPED'): errs.append('I5 success though failed')
        else:
            exp = 'PASS' if status is TestCaseStatus.PASS else 'XPASS'
            if st!=exp: errs.append('I5 %s'%st)
        if errs: viol.append((status.name, dict(PLAN), errs, trace[-4:], prevs))
print(nrun, time.time()-t0, len(viol), dict(outcomes))
for v in viol[:10]: print(v)
# previous-phase table
tab=collections.defaultdict(set)
for plan in singles:
    PLAN.clear(); PLAN.update(plan); LOG.clear()
    cb = ConfigurationBuilder(pathlib.Path('/tmp/x'), pathlib.Path('/tmp/x'), NameAndValue('stub', Act()))
    r = full.execute(conf, cb, False, mk(TestCaseStatus.PASS))
    prevs=[e[1] for e in LOG if e[0]=='PREV']
    key = next(iter(plan)) if plan else None
    tab[(key[0],key[1]) if key else None].add(prevs[0] if prevs else None)
for k,v in tab.items(): print(k, v)
shutil.rmtree(scr)
