from shim import *
import os
os.makedirs('bin', exist_ok=True)
open('bin/prog','w').write('#!/bin/sh\n'); os.chmod('bin/prog',0o755)
open('src.py','w').write('print(1)\n')
case("[conf]\nact-home = bin\n[act]\nprog a 'b c' \"d\"\n")
case("[act]\n% sysprog a 'b c'\n")
case("[act]\n$ echo 'b  c' > x | cat\n")
case("[act]\n-python -c :> import sys; print(1)\n")
case("[conf]\nactor = file % interp -x\n[act]\nsrc.py arg1 'arg 2'\n")
case("[conf]\nactor = source % interp -x\n[act]\nline 1\n  line 2\n# comment?\n")
case("[conf]\nactor = null\n[act]\nanything\n")
case("[setup]\ndef program P = % pp a1\n  -stdin 'in1'\ndef program Q = @ P a2\n  -stdin 'in2'\nstdin = 'setupin'\n[act]\n@ Q a3\n  -stdin 'in3'\n")
case("[act]\n% sysprog a\n", args=['--actor','interp2 -y'])
