from shim import *
defs = {
 'string': "def string A = sv",
 'list': "def list A = e1 e2",
 'path': "def path A = -rel-act pv",
 'integer-matcher': "def integer-matcher A = == 0",
 'line-matcher': "def line-matcher A = constant true",
 'file-matcher': "def file-matcher A = constant true",
 'files-matcher': "def files-matcher A = constant true",
 'files-condition': "def files-condition A = { f }",
 'files-source': "def files-source A = { file f }",
 'text-source': "def text-source A = 'ts'",
 'text-matcher': "def text-matcher A = constant true",
 'text-transformer': "def text-transformer A = identity",
 'program': "def program A = % prg",
}
uses = {
 'str-naked': ("setup", "file o1 = @[A]@"),
 'str-soft': ("setup", 'file o2 = "x@[A]@y"'),
 'str-in-def': ("setup", 'def string B = x@[A]@'),
 'list-elem': ("setup", "def list B = p @[A]@ q"),
 'arg': ("setup", "run % probe @[A]@"),
 'path-rel': ("setup", "def path B = -rel A x"),
 'path-prefix': ("setup", "def path B = @[A]@/x"),
 'path-suffix': ("setup", "def path B = -rel-act x@[A]@"),
 'text-source-ref': ("setup", "file o3 = @[A]@"),
 'int-expr': ("assert", "exit-code == @[A]@"),
 'im-plain': ("assert", "exit-code A"),
 'im-ref': ("assert", "exit-code @[A]@"),
 'lm-plain': ("assert", "stdout every line : A"),
 'fm-plain': ("assert", "exists -rel-act . : A"),
 'fsm-plain': ("assert", "dir-contents -rel-act . : A"),
 'fc-plain': ("assert", "dir-contents -rel-act . : matches A"),
 'fsrc-plain': ("setup", "dir dd = A"),
 'tm-plain': ("assert", "stdout A"),
 'tt-plain': ("assert", "stdout -transformed-by A is-empty"),
 'pgm-ref': ("setup", "run @ A"),
 'regex': ("assert", "stdout matches @[A]@"),
 'env-name': ("setup", "env @[A]@ = v"),
}
import sys
print('%-16s' % '', ' '.join('%-4s' % u[:4] for u in uses))
res={}
for t,d in defs.items():
    row=[]
    for u,(ph,line) in uses.items():
        if ph=='setup':
            txt = "[setup]\n%s\n%s\n[act]\n" % (d, line)
        else:
            txt = "[setup]\n%s\n[act]\n[assert]\n%s\n" % (d, line)
        rc,o,e = case(txt, show=False)
        ident=o.strip()
        row.append({'PASS':'ok','FAIL':'ok','HARD_ERROR':'HE','VALIDATION_ERROR':'VE','SYNTAX_ERROR':'SE','INTERNAL_ERROR':'IE!'}.get(ident,ident))
    res[t]=row
    print('%-16s' % t, ' '.join('%-4s' % r for r in row))
print(list(uses))
