import io, sys, os
from exactly_lib.cli_default.default_main_program_setup import default_main_program
from exactly_lib.util.file_utils.std import StdOutputFiles
mp = default_main_program()
def run(args):
    o = io.StringIO(); e = io.StringIO()
    rc = mp.execute(args, StdOutputFiles(o, e))
    return rc, o.getvalue(), e.getvalue()
def denote(strsyntax):
    open('s.case','w').write("[setup]\ndef string S = 'VAL'\nfile out.txt = %s\n[act]\n[assert]\n" % strsyntax)
    rc,o,e = run(['--keep','s.case'])
    d=o.strip()
    try:
        r = open(os.path.join(d,'act','out.txt')).read()
    except Exception as ex:
        r = ('ERR', e.strip().split('\n')[0], e[-300:])
    import shutil; 
    if d: shutil.rmtree(d, ignore_errors=True)
    return r
for s in ["a#b", "a'@[S]@'", "'x'@[S]@", "\"@[S]@\"'@[S]@'", "a\"b c\"d", "a #b", "@[S]@#x", "'a#b'", "a\\b", "'it''s'", "a'b", "x@[S]@y@[T", "a\tb"]:
    print(repr(s), '->', repr(denote(s)))
