from shim import *
import os
os.chdir('s2')
open('exactly.suite','w').write("""[cases]
c1.case
[suites]
sub/s.suite
[setup]
run % S_setup
[act]
[before-assert]
run % S_ba
[assert]
run % S_assert
[cleanup]
run % S_cleanup
""")
open('c1.case','w').write("""[setup]
run % c_setup
[act]
% c_act
[before-assert]
run % c_ba
[assert]
run % c_assert
[cleanup]
run % c_cleanup
""")
open('sub/s.suite','w').write("[cases]\nc2.case\n")
open('sub/c2.case','w').write("[act]\n% c2_act\n")
calls.clear()
print(run(['suite','exactly.suite'])[:2]); print([c['args'][0] for c in calls])
calls.clear()
print(run(['c1.case'])[:2]); print([c['args'][0] for c in calls])
calls.clear()
print(run(['--suite','exactly.suite','sub/c2.case'])[:2]); print([c['args'][0] for c in calls])
calls.clear()
print(run(['suite','.'])[:2]); print([c['args'][0] for c in calls])
