import io, sys, os, shutil, tempfile, time, resource, pathlib
from exactly_lib import program_info
from exactly_lib.cli import main_program
from exactly_lib.cli.test_case_def import TestCaseDefinitionForMainProgram
from exactly_lib.cli_default.program_modes import test_suite
from exactly_lib.cli_default.program_modes.test_case import builtin_symbols, default_instructions_setup, test_case_handling_setup
from exactly_lib.common import instruction_name_and_argument_splitter
from exactly_lib.common.instruction_setup import SingleInstructionSetup
from exactly_lib.execution import sandbox_dir_resolving
from exactly_lib.processing.instruction_setup import TestCaseParsingSetup, InstructionsSetup
from exactly_lib.processing.parse.act_phase_source_parser import ActPhaseParser
from exactly_lib.util.file_utils.std import StdOutputFiles
from exactly_lib.section_document.element_parsers.section_element_parsers import InstructionParserWithoutSourceFileLocationInfo
from exactly_lib.test_case.phases.setup.instruction import SetupPhaseInstruction
from exactly_lib.test_case.result import sh, svh
scratch = tempfile.mkdtemp(prefix='vx-scr-')
tempfile.tempdir = scratch
class Stub(SetupPhaseInstruction):
    def __init__(s, arg): s.arg=arg
    def main(s, env, settings, os_services, sb):
        if s.arg=='raise': raise ZeroDivisionError('boom')
        return sh.new_sh_success()
class P(InstructionParserWithoutSourceFileLocationInfo):
    def parse_from_source(self, source):
        arg = source.remaining_part_of_current_line.strip()
        source.consume_current_line()
        return Stub(arg)
d = default_instructions_setup.INSTRUCTIONS_SETUP
setup_set = dict(d.setup_instruction_set); setup_set['x-stub'] = SingleInstructionSetup(P(), None)
ins = InstructionsSetup(d.config_instruction_set, setup_set, d.before_assert_instruction_set, d.assert_instruction_set, d.cleanup_instruction_set)
mp = main_program.MainProgram(test_case_handling_setup.setup(),
        sandbox_dir_resolving.mk_tmp_dir_with_prefix(program_info.PROGRAM_NAME + '-'),
        TestCaseDefinitionForMainProgram(TestCaseParsingSetup(instruction_name_and_argument_splitter.splitter, ins, ActPhaseParser()), builtin_symbols.ALL),
        test_suite.test_suite_definition(), 4)
def run(args):
    o = io.StringIO(); e = io.StringIO()
    rc = mp.execute(args, StdOutputFiles(o, e))
    return rc, o.getvalue(), e.getvalue()
open('st.case','w').write("[setup]\nx-stub raise\n")
rc,o,e = run(['st.case']); print(rc,o, e[:200])
open('ok.case','w').write("[setup]\nx-stub ok\nfile f = 'abc'\n[act]\n[assert]\ncontents f : equals 'abc'\n")
print(run(['--keep','ok.case'])[:2], os.listdir(scratch))
open('s.suite','w').write("[cases]\nok.case\nst.case\n")
print(run(['suite','s.suite'])[:2], os.listdir(scratch))
t=time.time()
for i in range(3000): run(['ok.case'])
print((time.time()-t)/3000, resource.getrusage(resource.RUSAGE_SELF).ru_maxrss, os.listdir(scratch))
shutil.rmtree(scratch)
