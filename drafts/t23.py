import time, tempfile, pathlib, os, itertools, re, shutil, collections
from exactly_lib.section_document.parse_source import ParseSource
from exactly_lib.impls.types.string_transformer import parse_string_transformer
from exactly_lib.util.symbol_table import SymbolTable
from exactly_lib.tcfs.tcds import TestCaseDs
from exactly_lib.tcfs.hds import HomeDs
from exactly_lib.tcfs import sds as sdsm
from exactly_lib.test_case.app_env import ApplicationEnvironment
from exactly_lib.impls.os_services import os_services_access
from exactly_lib.util.process_execution.execution_elements import ProcessExecutionSettings
from exactly_lib.execution import phase_file_space
from exactly_lib.impls.types.string_source.factory import RootStringSourceFactory
from exactly_lib.test_case import phase_identifier
root = tempfile.mkdtemp(prefix='vx-')
sds = sdsm.construct_at(root); hds = HomeDs(pathlib.Path(root), pathlib.Path(root)); tcds = TestCaseDs(hds, sds)
space = phase_file_space.PhaseTmpFileSpaceFactory(sds.internal_tmp_dir).instruction__main(phase_identifier.ASSERT, 1).paths_access
env = ApplicationEnvironment(os_services_access.new_for_current_os(), ProcessExecutionSettings(10, None), space, 8192)
ssf = RootStringSourceFactory(space)
def transformer(src):
    sdv = parse_string_transformer.parsers().full.parse(ParseSource(src))
    ddv = sdv.resolve(SymbolTable({}))
    v = ddv.validator.validate_pre_sds_if_applicable(hds)
    if v is not None: return None
    return ddv.value_of_any_dependency(tcds).primitive(env)
N=4
B=list(range(-N-2, N+3))
ranges=[]
for a in B: ranges += [("%d"%a, ('p',a)), (":%d"%a, ('u',a)), ("%d:"%a, ('l',a))]
for a in B:
    for b in B: ranges.append(("%d:%d"%(a,b), ('f',a,b)))
def norm(b,n): return n+1+b if b<0 else b
def contains(r,i,n):
    k=r[0]
    if k=='p': return i==norm(r[1],n)
    if k=='u': return i<=norm(r[1],n)
    if k=='l': return i>=norm(r[1],n)
    return norm(r[1],n)<=i<=norm(r[2],n)
texts=[''.join('l%d\n'%i for i in range(1,n+1)) for n in range(0,N+1)]
texts += [t[:-1] for t in texts if t]
bad=collections.Counter(); ex={} ; n=0; invalid=set()
t0=time.time()
for (s1,r1) in ranges:
    tr = transformer("filter -line-nums %s" % s1)
    if tr is None: invalid.add(s1); continue
    for tx in texts:
        ls = re.findall(r'[^\n]*\n|[^\n]+', tx); nn=len(ls)
        got = tr.transform(ssf.of_const_str(tx)).contents().as_str
        exp = ''.join(l for i,l in enumerate(ls,1) if contains(r1,i,nn))
        n+=1
        if got!=exp: bad[s1]+=1; ex.setdefault(s1,(tx,got,exp))
print('single', n, time.time()-t0, 'invalid:', sorted(invalid)[:20], len(invalid))
print(len(bad), list(ex.items())[:6])
# pairs (subset)
bad2=collections.Counter(); ex2={}; n=0
sub=[r for r in ranges if r[0] not in invalid]
import random
t0=time.time()
for (s1,r1) in sub[::3]:
    for (s2,r2) in sub[::5]:
        tr = transformer("filter -line-nums %s %s" % (s1,s2))
        for tx in texts:
            ls = re.findall(r'[^\n]*\n|[^\n]+', tx); nn=len(ls)
            got = tr.transform(ssf.of_const_str(tx)).contents().as_str
            exp = ''.join(l for i,l in enumerate(ls,1) if contains(r1,i,nn) or contains(r2,i,nn))
            n+=1
            if got!=exp: bad2[(s1,s2)]+=1; ex2.setdefault((s1,s2),(tx,got,exp))
print('pairs', n, time.time()-t0, len(bad2), list(ex2.items())[:5])
shutil.rmtree(root)
