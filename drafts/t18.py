from shim import *
import os
os.environ['Y']='y0'
os.environ.pop('X',None)
case("""[setup]
run % p0
env -of act X = a
run % p1
env -of !act X = n
run % p2
env X = "${X}+${Y}+${nope}"
run % p3
env -of act unset Y
cd -rel-tmp .
dir sub
cd sub
run % p4
timeout = none
[act]
% atc
[before-assert]
env X = "${X}!"
timeout = 3
run % p5
cd ..
[assert]
run % p6
[cleanup]
env unset X
run % p7
""")
