"""Interactive probing helper: from tools.p import *"""
import os, sys, json, shutil
sys.path.insert(0, os.path.dirname(os.path.dirname(os.path.abspath(__file__))))
from mc import world, procseam, cli
W = world.get()
S = procseam.install()
def case(text, args=(), files=None, show=True, real_files=False, mp=None):
    S.calls.clear()
    o = cli.run_case(text, args=args, files=files, real_files=real_files, mp=mp)
    if show:
        print('==> rc=%s out=%r exc=%s' % (o.rc, o.out, o.exc))
        print('    err:', ' / '.join(l for l in o.err.split('\n') if l.strip())[:700])
        for c in S.calls:
            print('    call:', {k: c[k] for k in ('args','shell','stdin','timeout','cwd') })
    return o
import atexit
atexit.register(world.remove_base)
