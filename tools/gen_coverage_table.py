#!/usr/bin/env python3
"""gen_coverage_table.py - print the table of DESIGN §8.6 from the evidence files (quick tier)."""
import glob
import json

print('| id | level | executions (quick) | distinct non-trivial | distinct outcomes | states / transitions | validated traces | known-finding hits | wall s |')
print('|---|---|---|---|---|---|---|---|---|')
for p in sorted(glob.glob('/verif/evidence/C*.json')):
    e = json.load(open(p))
    c = e['coverage']
    st = c.get('states_visited') or c.get('states') or 0
    tr = c.get('transitions_covered') or c.get('transitions') or 0
    kf = c.get('known_finding_hits') or {}
    print('| %s | %s | %s | %s | %s | %s | %s | %s | %d |' % (
        e['property_id'], e['level'], c.get('evaluations'), c.get('distinct_nontrivial'), c.get('distinct_outcomes'),
        ('%s / %s' % (st, tr)) if st else '-', c.get('traces_validated_against_impl') or '-',
        ', '.join('%s %d' % kv for kv in sorted(kf.items())) or '-', round(e.get('wall_s', 0))))
