#!/usr/bin/env python3
"""own_mutants.py [ID...] — apply each of the author's own one-line property-breaking edits (first wave planned in DESIGN §5) in the scratch
worktree /tmp/wt-main, run the pinned suite and the named checks, report DETECTED / MISSED, revert.  Results: /verif/seeded/own/RESULTS.json.
These are NOT independent (the author of the checks wrote them); they complement the independently seeded changes."""
import json
import os
import subprocess
import sys

WT = '/tmp/wt-main'
S = 'src/exactly_lib/'
M = [
    # id, file, old, new, checks
    ('C01-o1', S + 'execution/partial_execution/impl/executor.py', "                self._cleanup_main(PreviousPhase.BEFORE_ASSERT)", "                self._cleanup_main(PreviousPhase.ASSERT)", ['C01']),
    ('C01-o2', S + 'execution/partial_execution/impl/executor.py', "            except PhaseStepFailureException as ex:\n                self._cleanup_main(previous_phase)\n                raise ex",
     "            except PhaseStepFailureException as ex:\n                raise ex", ['C01', 'C04']),
    ('C02-o1', S + 'execution/full_execution/result.py', "        if ps is ExecutionFailureStatus.FAIL:\n            return FullExeResultStatus.XFAIL", "        if ps is ExecutionFailureStatus.FAIL:\n            return FullExeResultStatus.XPASS", ['C02']),
    ('C03-o1', S + 'execution/partial_execution/impl/executor.py', "            self._assert__validate_pre_sds()\n            self._cleanup__validate_pre_sds()\n", "            self._assert__validate_pre_sds()\n", ['C03', 'C01']),
    ('C04-o1', S + 'execution/partial_execution/execution.py', "        if not is_keep_sandbox:\n            if ret_val is not None and ret_val.has_sds:", "        if not is_keep_sandbox:\n            if ret_val is not None and ret_val.has_sds and ret_val.status is None:", ['C04', 'C02']),
    ('C05-o1', S + 'impls/types/string_matcher/impl/equality.py', "    return len(operand) + 1 + custom_details.STRING__EXTRA_TO_READ_FOR_ERROR_MESSAGES", "    return len(operand) + custom_details.STRING__EXTRA_TO_READ_FOR_ERROR_MESSAGES - 100", ['C05']),
    ('C05-o2', S + 'impls/types/string_transformer/impl/replace/impl.py', "    if rest != '':\n        yield rest", "    if rest.strip() != '':\n        yield rest", ['C05']),
    ('C06-o1', S + 'impls/types/matcher/impls/combinator_matchers.py', "        for operand in self._operands:", "        for operand in reversed(self._operands):", ['C06']),
    ('C08-o1', S + 'type_val_deps/sym_ref/w_str_rend_restrictions/reference_restrictions.py', "        return self._check_indirect(symbol_table, (), references)", "        return None", ['C08']),
    ('C11-o1', S + 'impls/instructions/multi_phase/environ/impl.py', "        if Phase.NON_ACT in self._phases:", "        if Phase.NON_ACT in self._phases or Phase.ACT in self._phases:", ['C11']),
    ('C13-o1', S + 'util/interval/w_inversion/combinations.py', "        min(non_none_uppers)\n", "        max(non_none_uppers) - 1\n", ['C13']),
    ('C15-o1', S + 'impls/types/files_matcher/models.py', "        return self._max_depth is not None and depth == self._max_depth", "        return self._max_depth is not None and depth + 1 == self._max_depth", ['C15']),
    ('C15-o2', S + 'impls/types/files_matcher/models.py', "        return self._min_depth is None or depth >= self._min_depth", "        return self._min_depth is None or depth > self._min_depth", ['C15']),
    ('C16-o1', S + 'test_suite/reporters/simple_progress_reporter.py', "                    FullExeResultStatus.XFAIL\n                    }", "                    FullExeResultStatus.XFAIL,\n                    FullExeResultStatus.XPASS,\n                    }", ['C16']),
    ('C07-o1', S + 'section_document/parse_source.py', "            self._current_line_number += num_lines_consumed\n            self._current_line_text = first_line_split[0]", "            self._current_line_number += num_lines_consumed - (1 if num_lines_consumed > 2 else 0)\n            self._current_line_text = first_line_split[0]", ['C07']),
    ('C10-o1', S + 'impls/actors/program/execution.py', "        stdin_parts = list(program_stdin)\n\n        if act_stdin:\n            stdin_parts.append(act_stdin)", "        stdin_parts = list(program_stdin)\n\n        if act_stdin:\n            stdin_parts.insert(0, act_stdin)", ['C10']),
    ('C17-o1', S + 'test_suite/file_reading/suite_file_reading.py', "            cleanup_phase=append(test_case.cleanup_phase, test_suite.cleanup_phase),", "            cleanup_phase=append(test_suite.cleanup_phase, test_case.cleanup_phase),", ['C17']),
    ('C19-o1', S + 'util/process_execution/process_executor.py', "                timeout=settings.timeout_in_seconds,\n", "", ['C19', 'C11']),
]


def sh(cmd):
    return subprocess.run(cmd, shell=True, stdout=subprocess.PIPE, stderr=subprocess.STDOUT, text=True)


def main():
    want = set(sys.argv[1:])
    sh('git -C %s checkout -q -- . && git -C %s checkout -q --detach $(git -C /repo rev-parse HEAD)' % (WT, WT))
    results = {}
    out_dir = '/verif/seeded/own'
    os.makedirs(out_dir, exist_ok=True)
    rp = os.path.join(out_dir, 'RESULTS.json')
    if os.path.exists(rp):
        results = json.load(open(rp))
    for mid, f, old, new, checks in M:
        if want and mid not in want:
            continue
        if old is None:
            continue
        p = os.path.join(WT, f)
        s = open(p).read()
        if old not in s:
            print(mid, 'PATTERN NOT FOUND')
            continue
        open(p, 'w').write(s.replace(old, new, 1))
        try:
            diff = sh('git -C %s diff -- src' % WT).stdout
            pin = sh('python3 /verif/tools/pinned.py %s' % WT)
            r = {'file': f, 'pinned': pin.stdout.strip().split('\n')[0], 'pinned_ok': pin.returncode == 0, 'checks': {}}
            for c in checks:
                o = sh('cd /verif && VERIF_REPO=%s ./check %s --no-evidence' % (WT, c))
                det = o.returncode == 1 and 'VIOLATION' in o.stdout
                first = [l.strip() for l in o.stdout.split('\n') if l.strip().startswith('- ')][:1]
                r['checks'][c] = {'detected': det, 'first': first}
                print('%s %s: %s %s' % (mid, c, 'DETECTED' if det else 'MISSED', (first[0][:160] if first else '')))
            results[mid] = r
            open(os.path.join(out_dir, mid + '.diff'), 'w').write(diff)
        finally:
            sh('git -C %s checkout -q -- .' % WT)
    json.dump(results, open(rp, 'w'), indent=1, sort_keys=True)


main()
