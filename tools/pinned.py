#!/usr/bin/env python3
"""pinned.py <repo-dir>: run the pinned pytest suite in <repo-dir> (importing its own src/) and
report whether every test in BASELINE.json's stable_pass list passed.  Exit 0 iff all passed."""
import json, os, subprocess, sys, tempfile, xml.etree.ElementTree as ET
d = os.path.abspath(sys.argv[1] if len(sys.argv) > 1 else '/repo')
base = json.load(open('/root/.vp/BASELINE.json'))
want = set(base['stable_pass'])
with tempfile.NamedTemporaryFile(suffix='.xml', delete=False) as f:
    xml = f.name
# a private TMPDIR: the suite leaves sandbox dirs behind; removing them from the shared /tmp would hit concurrently running exactly processes
priv = tempfile.mkdtemp(prefix='pinned-tmp-')
env = dict(os.environ, PYTHONPATH=os.path.join(d, 'src'), PYTHONDONTWRITEBYTECODE='1', TMPDIR=priv)
env.pop('EXACTLY_VERIF', None)
subprocess.run(['/venv/bin/python', '-m', 'pytest', '-ra', '-q', '-p', 'no:cacheprovider', '--timeout=900',
                '--continue-on-collection-errors', '--junitxml=' + xml], cwd=d, env=env,
               stdout=subprocess.DEVNULL, stderr=subprocess.DEVNULL)
passed = set()
for tc in ET.parse(xml).getroot().iter('testcase'):
    if not any(ch.tag in ('failure', 'error', 'skipped') for ch in tc):
        passed.add('%s::%s' % (tc.get('classname'), tc.get('name')))
os.unlink(xml)
missing = sorted(want - passed)
print('pinned: %d/%d stable tests passed' % (len(want) - len(missing), len(want)))
for m in missing[:20]:
    print('  NOT PASSED:', m)
import shutil
shutil.rmtree(priv, ignore_errors=True)
sys.exit(1 if missing else 0)
