#!/usr/bin/env python3
"""Regenerates /verif/seeded/CATCH.md: one row per kept seeded change (which check detects it, whether the check had to be strengthened)."""
import glob, json, os
rows = []
for d in sorted(glob.glob('/verif/seeded/*/meta.json')):
    m = json.load(open(d))
    sid = os.path.basename(os.path.dirname(d))
    det = ', '.join(k for k, v in m.get('detection', {}).items() if v.get('detected'))
    missed = ', '.join(k for k, v in m.get('detection', {}).items() if not v.get('detected'))
    summ = ' '.join(m.get('summary', '').split())[:230].replace('|', '/')
    need = ' '.join(m.get('needs_to_manifest', '').split())[:200].replace('|', '/')
    rows.append('| %s | %s | %s | %s | %s | %s |' % (sid, summ, need, det or '-', missed or '', 'strengthened: ' + (m['history'] if isinstance(m['history'], str) else ' ; '.join(m['history']))[:260].replace('|', '/').replace('\n', ' ') if m.get('history') else 'first run'))
own = '/verif/seeded/own/RESULTS.json'
text = ['# Seeded changes and the checks that detect them', '',
        'Independent changes (sub-agents that saw only the property text and a scratch worktree); each confirmed: pinned suite 155/155 with the change, demo fails with / passes without it.', '',
        '| id | change | needs to manifest | detected by | also run, not detecting | first run / strengthened |', '|---|---|---|---|---|---|'] + rows
if os.path.exists(own):
    r = json.load(open(own))
    text += ['', '## Own one-line edits (not independent; tools/own_mutants.py)', '', '| id | file | pinned suite | detection |', '|---|---|---|---|']
    for k in sorted(r):
        text.append('| %s | %s | %s | %s |' % (k, r[k]['file'], r[k]['pinned'], ', '.join('%s:%s' % (c, 'yes' if v['detected'] else 'no') for c, v in r[k]['checks'].items())))
open('/verif/seeded/CATCH.md', 'w').write('\n'.join(text) + '\n')
print(len(rows), 'rows')
