#!/usr/bin/env python3
import json, sys
pid = sys.argv[1]
rnd = int(sys.argv[2]) if len(sys.argv) > 2 else 1
A, B = 'm%d' % (2 * rnd - 1), 'm%d' % (2 * rnd)
for l in open('/verif/properties.jsonl'):
    p = json.loads(l)
    if p['id'] == pid:
        break
wt = '/tmp/mut/%s' % pid
used = ''
if rnd > 1:
    import glob, os
    items = []
    for d in sorted(glob.glob('/verif/seeded/%s-m*' % pid)):
        try:
            m = json.load(open(os.path.join(d, 'meta.json')))
        except Exception:
            continue
        items.append('- ' + (m.get('summary') or '')[:330].replace('\n', ' '))
    used = ('\n\nALREADY USED (earlier rounds produced these; do NOT reuse the same code site or the same idea - pick OTHER parts of the property: other clauses of the statement, other code paths, other files among the starting points or files they call):\n'
            + '\n'.join(items)
            + '\n\nAim for variety: the two new changes should break DIFFERENT clauses of the property statement than the ones above where possible, and should be at least as subtle (a particular combination of options, a multi-step history, a boundary size, state shared between two uses, a particular position, an unusual but legal input).  The directory MUTANTS/ may already contain earlier mutants: leave them alone.\n')
print(f"""You are helping to evaluate a verification harness by *seeding realistic defects* into a copy of an open-source project.

Project: emilkarlen/exactly — a command-line program tester with its own test-case DSL (Python, sources under src/exactly_lib).
Your private scratch copy (a git worktree) is: {wt}
Work ONLY inside {wt}. Do NOT modify /repo. Do NOT read, list or use anything under /verif (it must stay unknown to you).
Python to use: /venv/bin/python  — always run with PYTHONPATH={wt}/src so your copy is imported (check with: PYTHONPATH={wt}/src /venv/bin/python -c "import exactly_lib; print(exactly_lib.__file__)").
The program is run as: PYTHONPATH={wt}/src /venv/bin/python -W ignore {wt}/src/default-main-program-runner.py [args] FILE  (built-in manual: `... help`, `... help case spec`, `... help instructions`, etc).  There is no network.

THE PROPERTY that your changes must break:

  {p['id']} — {p['title']}
  Statement: {p['statement']}
  Quantified over: {p['quantifier']['text']}
  Code that is meant to make it hold (starting points): {', '.join(p['anchors']['files'][:12])}

TASK: produce TWO independent source changes ("{A}" and "{B}", different mechanisms / different code sites) under {wt}/src, each of which
  (a) makes exactly violate the property above for some input / fault sequence / history,
  (b) still imports/compiles and passes the project's pinned test-suite: run  `python3 /tmp/mut/pinned.py {wt}`  — it must print 155/155 and exit 0 with your change applied,
  (c) is REALISTIC and SUBTLE: the kind of slip a maintainer could make in a refactoring or optimisation (off-by-one, wrong variable, a condition inverted on one path only, a missing case in one branch, state hoisted/shared, an ordering of two steps swapped, an early return, a cache not invalidated...). It must need something SPECIFIC to manifest — a particular position, a particular combination of options, a multi-step sequence, an unusual input, a failure at a particular step, or two cooperating sites that each look fine alone.  A change that breaks the most ordinary use of the feature immediately (e.g. every test case fails) is NOT wanted.  Do not add new options/instructions; do not break things unrelated to the property; keep each diff small (typically 1-15 lines).
  (d) comes with a demonstration: a small self-contained Python script that exits 0 on the ORIGINAL source and exits non-zero (printing what went wrong) with your change applied. It should exercise exactly through its public behaviour (running the main program on generated test-case files in a temp dir, or calling the library entry points named in the property).  It takes the source root as env PYTHONPATH, so the same script is run against both trees.
{used}
DELIVERABLES — create these files (the directory {wt}/MUTANTS is yours):
  {wt}/MUTANTS/{A}/patch.diff    (output of `git -C {wt} diff -- src` with ONLY change {A} applied)
  {wt}/MUTANTS/{A}/demo.py
  {wt}/MUTANTS/{A}/meta.json     {{"property": "{p['id']}", "summary": "...what was changed...", "needs_to_manifest": "...the specific input/sequence/fault needed...", "ran": ["commands you ran and their results"]}}
  and the same under {B}/.
Procedure per mutant: start from a clean tree (`git -C {wt} checkout -- src`), edit, run pinned.py (must be 155/155), run demo.py on your mutated tree (must fail) , save the diff, then `git -C {wt} checkout -- src` and run demo.py again on the clean tree (must pass, exit 0).  Verify that patch.diff applies cleanly with `git -C {wt} apply --check MUTANTS/{A}/patch.diff` on the clean tree.  Leave the worktree's src CLEAN (no modifications) when you finish; clean up any temp dirs you created under /tmp (not your worktree).
Always `cd {wt}` before running anything (so that stray output files land in your worktree, not elsewhere).
Finish with a short report: for each mutant one paragraph (what, where, what is needed to trigger, how demo shows it).
SIDE FINDINGS: if, while exploring, you notice that the ORIGINAL (unchanged) tree itself behaves in a way that contradicts the property statement above, do not fix it and do not build a mutant on it, but list it at the end of your report under 'Side findings' with a minimal reproducer (the exact test-case text / command and what happens).""")
