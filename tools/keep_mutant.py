#!/usr/bin/env python3
"""keep_mutant.py <src-dir> <seeded-id>  — copy a confirmed seeded change into /verif/seeded/<id>/ with the try_result merged into meta.json"""
import json, os, shutil, sys
src, sid = sys.argv[1], sys.argv[2]
dst = os.path.join('/verif/seeded', sid)
os.makedirs(dst, exist_ok=True)
shutil.copy(os.path.join(src, 'demo.py'), os.path.join(dst, 'demo.py'))
reb = os.path.join(src, 'patch.rebased.diff')
shutil.copy(reb if os.path.exists(reb) else os.path.join(src, 'patch.diff'), os.path.join(dst, 'patch.diff'))
meta = json.load(open(os.path.join(src, 'meta.json')))
tr = json.load(open(os.path.join('/tmp/mut-results', os.path.abspath(src).strip('/').replace('/', '_') + '.json')))
meta['origin'] = 'independent sub-agent given only the property text and a scratch worktree'
meta['confirmed_by_me'] = {'pinned_suite': tr.get('pinned'), 'demo_exit_on_clean_tree': tr.get('demo_clean_rc'),
                           'demo_exit_on_changed_tree': tr.get('demo_mutant_rc'),
                           'how': 'tools/try_mutant.py --full in scratch worktree /tmp/wt-main (patch applied, pinned suite, demo, checks, reverted)'}
meta['detection'] = {k: {'detected': v['rc'] == 1 and v['violations'] > 0, 'exit': v['rc'],
                         'first_lines': [l.strip() for l in v['tail'].split('\n') if l.strip().startswith(('- ', 'case:'))][:3]}
                     for k, v in tr.items() if isinstance(v, dict) and 'rc' in v}
json.dump(meta, open(os.path.join(dst, 'meta.json'), 'w'), indent=1)
print(sid, {k: v['detected'] for k, v in meta['detection'].items()})
