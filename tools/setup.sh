#!/bin/bash
# Offline setup: nothing to download.  Verifies the interpreter and the repo import, builds the C probe.
set -e
cd "$(dirname "$0")/.."
PYTHONPATH=/repo/src /venv/bin/python -W ignore -c "import exactly_lib, sys; print('exactly_lib from', exactly_lib.__file__)"
mkdir -p build evidence replays
if [ -f probe/probe.c ]; then gcc -O1 -o build/probe probe/probe.c; fi
echo setup-ok
