#!/usr/bin/env python3
"""try_many.py [--checks C01,C02] <mutant-dir>...  — tools/try_mutant.py --full on several seeded changes at once,
each worker with a scratch worktree of its own (/tmp/wt-<k>); prints every report when it is complete."""
import os, queue, subprocess, sys, threading
args = sys.argv[1:]
extra = []
if args and args[0] == '--checks':
    extra = ['--checks', args[1]]; args = args[2:]
q = queue.Queue()
for d in args: q.put(d)
lock = threading.Lock()
def work(k):
    while True:
        try: d = q.get_nowait()
        except queue.Empty: return
        r = subprocess.run(['python3', '/verif/tools/try_mutant.py', d, '--full'] + extra, env=dict(os.environ, VERIF_WT='/tmp/wt-%d' % (k + int(os.environ.get('TRY_BASE', '0'))), VERIF_JOBS='6'),
                           stdout=subprocess.PIPE, stderr=subprocess.STDOUT, text=True)
        with lock:
            print('##', d); print(r.stdout.rstrip()); sys.stdout.flush()
ts = [threading.Thread(target=work, args=(k,)) for k in range(1, 1 + min(4, len(args)))]
for t in ts: t.start()
for t in ts: t.join()
