#!/usr/bin/env python3
"""try_mutant.py <mutant-dir> [--checks C01,C02] [--tier quick] [--full]

<mutant-dir> holds patch.diff, demo.py, meta.json.  Uses the scratch worktree /tmp/wt-main (created if needed).
--full: also runs the pinned suite and the demo on clean and mutated trees (confirmation before keeping a mutant).
Prints one summary line per check:  DETECTED / MISSED.
"""
import json, os, subprocess, sys
WT = os.environ.get('VERIF_WT', '/tmp/wt-main')
def sh(cmd, **kw):
    return subprocess.run(cmd, shell=True, stdout=subprocess.PIPE, stderr=subprocess.STDOUT, text=True, **kw)
def main():
    d = os.path.abspath(sys.argv[1])
    args = sys.argv[2:]
    checks = None; tier = 'quick'; full = '--full' in args
    for i, a in enumerate(args):
        if a == '--checks': checks = args[i + 1].split(',')
        if a == '--tier': tier = args[i + 1]
    meta = json.load(open(os.path.join(d, 'meta.json')))
    if checks is None: checks = [meta['property']]
    if not os.path.isdir(WT):
        sh('git -C /repo worktree add -q %s HEAD' % WT)
    sh('git -C %s checkout -q -- . && git -C %s clean -fdq' % (WT, WT))
    sh('git -C %s checkout -q --detach $(git -C /repo rev-parse HEAD)' % WT)
    out = {'mutant': d, 'property': meta['property']}
    env_demo = 'PYTHONPATH=%s/src PYTHONWARNINGS=ignore' % WT
    if full:
        r = sh('cd %s && %s timeout 600 /venv/bin/python -W ignore %s/demo.py' % (d, env_demo, d))
        out['demo_clean_rc'] = r.returncode
    patch = os.path.join(d, 'patch.rebased.diff') if os.path.exists(os.path.join(d, 'patch.rebased.diff')) else os.path.join(d, 'patch.diff')
    r = sh('git -C %s apply %s' % (WT, patch))
    if r.returncode != 0:
        # /repo has moved on (fix: commits): retry with reduced context and store the rebased patch
        r = sh('git -C %s apply -C1 --recount %s' % (WT, patch))
        if r.returncode != 0:
            print('PATCH DOES NOT APPLY', r.stdout); return 2
        open(os.path.join(d, 'patch.rebased.diff'), 'w').write(sh('git -C %s diff -- src' % WT).stdout)
        print('   (patch rebased onto current /repo HEAD)')
    try:
        if full:
            r = sh('python3 /verif/tools/pinned.py %s' % WT)
            out['pinned'] = r.stdout.strip().split('\n')[0]
            out['pinned_ok'] = r.returncode == 0
            r = sh('cd %s && %s timeout 600 /venv/bin/python -W ignore %s/demo.py' % (d, env_demo, d))
            out['demo_mutant_rc'] = r.returncode
            out['demo_mutant_tail'] = r.stdout[-400:]
        for c in checks:
            r = sh('cd /verif && VERIF_REPO=%s ./check %s --tier %s --no-evidence' % (WT, c, tier))
            viol = [l for l in r.stdout.split('\n') if l.startswith('VIOLATION')]
            out[c] = {'rc': r.returncode, 'violations': len(viol), 'tail': r.stdout[-1200:]}
            print('%s on %s: %s (rc=%d)' % (c, os.path.basename(os.path.dirname(d)) + '/' + os.path.basename(d),
                                          'DETECTED' if r.returncode == 1 and viol else 'MISSED', r.returncode))
            det = [l for l in r.stdout.split('\n') if l.strip().startswith('- ') or l.strip().startswith('case:')][:4]
            for l in det: print('     ' + l.strip()[:300])
    finally:
        sh('git -C %s checkout -q -- . && git -C %s clean -fdq' % (WT, WT))
    if full:
        print('   pinned: %s   demo clean rc=%s   demo mutant rc=%s' % (out.get('pinned'), out.get('demo_clean_rc'), out.get('demo_mutant_rc')))
    os.makedirs('/tmp/mut-results', exist_ok=True)
    json.dump(out, open(os.path.join('/tmp/mut-results', d.strip('/').replace('/', '_') + '.json'), 'w'), indent=1)
main()
