#!/usr/bin/env python3
"""Regenerates /verif/MANIFEST.json from tools/manifest_src.py (single source of truth)."""
import json, os, sys
here = os.path.dirname(os.path.abspath(__file__))
sys.path.insert(0, here)
import manifest_src as m
props = [json.loads(l)['id'] for l in open(os.path.join(here, '..', 'properties.jsonl'))]
checks = []
for pid in props:
    c = m.CHECKS.get(pid)
    if not c:
        continue
    checks.append({
        'property_id': pid,
        'quick_cmd': './check %s --tier quick' % pid,
        'thorough_cmd': './check %s --tier thorough' % pid,
        'evidence_file': '/verif/evidence/%s.json' % pid,
        'replay_cmd_template': './check %s --replay {path}' % pid,
        'engine': 'mc-explorer',
        'level_claimed': {'category': c['level'], 'text': c['text'], 'design_ref': 'DESIGN.md §3 ' + pid},
        'level_note': c['note'],
        'technique': c['technique'],
    })
na = [{'property_id': pid, 'reason': m.NOT_APPLICABLE.get(pid, 'check not built yet (planned, see DESIGN.md §3 %s); not claimed' % pid)}
      for pid in props if pid not in m.CHECKS]
man = {
    'version': 1,
    'setup_cmd': m.SETUP_CMD,
    'hooks': m.HOOKS,
    'engines': m.ENGINES,
    'checks': checks,
    'notes': m.NOTES,
    'not_applicable': na,
}
for e in man['engines']:
    e['serves_properties'] = [c['property_id'] for c in checks]
json.dump(man, open(os.path.join(here, '..', 'MANIFEST.json'), 'w'), indent=1)
print('checks:', len(checks), 'not claimed:', len(na))
