SETUP_CMD = "cd /verif && ./tools/setup.sh"
HOOKS = {
    'guard': 'EXACTLY_VERIF',
    'enable': 'no source hooks: the harness replaces module attributes (process_executor.subprocess, '
              'preprocessor.subprocess, tempfile.tempdir) in its own process; ./check exports EXACTLY_VERIF=1 '
              'for symmetry only',
    'baseline_off_cmd': 'cd /repo && /venv/bin/python -m pytest -ra -q -p no:cacheprovider --timeout=900 '
                        '--continue-on-collection-errors',
    'source_commits': [],
    'add_only': True,
}
ENGINES = [{
    'name': 'mc-explorer',
    'path': '/verif/mc',
    'kind_free_text': 'hand-written explicit-state / bounded-exhaustive explorer in Python driving the real '
                      'exactly_lib in-process (stub instructions, virtual child processes at the single '
                      'subprocess.call seam), reference models as oracles; every chunk of cases runs in a process '
                      'forked from a pristine parent; candidate violations are re-run in a fresh interpreter',
}]
NOTES = ('All checks: ./check <ID> --tier quick|thorough; exactly_lib is imported from /repo/src (VERIF_REPO overrides) '
         'at run time, nothing is cached between runs.  Known findings: /verif/known_findings.json.')

MC = 'explicit-state exploration of the real implementation'
BE = 'bounded-exhaustive enumeration of the real implementation against a reference model'

CHECKS = {
    'C01': dict(
        level='model_checking',
        technique='exhaustive deviation-bounded fault-plan exploration of the real phased executor (stub instructions), invariants on every trace',
        text='Every fault plan with <=2 deviations (quick: any single fault, any forward fault + cleanup fault; thorough: '
             'arbitrary pairs, forward-forward-cleanup triples, 3-instruction phases, all small shapes) over every step x position x '
             'failure kind of the real executor is executed and the ordering / halting / cleanup / outcome invariants of the '
             'statement are checked on each recorded trace; the predicted trace of a 60-line reference protocol machine is compared '
             'with every implementation trace (traces_validated_against_impl).',
        note='Stub instructions and stub actor stand in for real instructions (the property is about the executor); bounds: <=3 '
             'instructions per phase, <=3 faults; trusted: the harness trace recorder.'),
}
NOT_APPLICABLE = {}
