SETUP_CMD = "cd /verif && ./tools/setup.sh"
HOOKS = {
    'guard': 'EXACTLY_VERIF',
    'enable': 'no source hooks: the harness replaces module attributes (process_executor.subprocess, '
              'preprocessor.subprocess, tempfile.tempdir) in its own process; ./check exports EXACTLY_VERIF=1 '
              'for symmetry only',
    'baseline_off_cmd': 'cd /repo && /venv/bin/python -m pytest -ra -q -p no:cacheprovider --timeout=900 '
                        '--continue-on-collection-errors',
    'source_commits': [],  # no hook commits; repairs of genuine defects are 'fix:' commits in /repo (see known_findings.json)
    'add_only': True,
}
ENGINES = [{
    'name': 'mc-explorer',
    'path': '/verif/mc',
    'kind_free_text': 'hand-written explicit-state / bounded-exhaustive explorer in Python driving the real '
                      'exactly_lib in-process (stub instructions, virtual child processes at the single '
                      'subprocess.call seam), reference models as oracles; every chunk of cases runs in a process '
                      'forked from a pristine parent; candidate violations are re-run in a fresh interpreter',
}]
NOTES = ('The space each check enumerates is stated exactly in the `rule` field of its evidence file (written by the check itself); the level texts below describe the core of each check - every check was extended in seven rounds of independent defect seeding (264 seeded changes, all detected; DESIGN.md 8.5 lists what each round added, seeded/CATCH.md which check catches which change).  All checks: ./check <ID> --tier quick|thorough; exactly_lib is imported from /repo/src (VERIF_REPO overrides) '
         'at run time, nothing is cached between runs.  Known findings: /verif/known_findings.json.')

MC = 'explicit-state exploration of the real implementation'
BE = 'bounded-exhaustive enumeration of the real implementation against a reference model'

CHECKS = {
    'C01': dict(
        level='model_checking',
        technique='exhaustive deviation-bounded fault-plan exploration of the real phased executor (stub instructions), invariants on every trace',
        text='Every fault plan with <=2 deviations (quick: any single fault, any forward fault + cleanup fault; thorough: '
             'arbitrary pairs, forward-forward-cleanup triples, 3-instruction phases, all small shapes) over every step x position x '
             'failure kind of the real executor is executed and the ordering / halting / cleanup / outcome invariants of the '
             'statement are checked on each recorded trace; the predicted trace of a 60-line reference protocol machine is compared '
             'with every implementation trace (traces_validated_against_impl).',
        note='Stub instructions and stub actor stand in for real instructions (the property is about the executor); bounds: <=3 '
             'instructions per phase, <=3 faults; trusted: the harness trace recorder.'),
}
CHECKS['C02'] = dict(
    level='exploration',
    technique='exhaustive enumeration of status x ending x action exit code x output x mode through the real CLI with a virtual action, against the transcribed outcome table',
    text='Every combination of configured status, 31 ways of ending (each phase/step, each error class), action exit code '
         '(quick: 11 boundary codes; thorough: 0..255 on the main endings), action output and the three output modes is run through '
         'MainProgram.execute and compared with the outcome tables transcribed from the reference manual; exit code, identifier, '
         'stream placement, --keep path and --act pass-through are all checked.',
    note='Virtual children at the subprocess.call seam stand in for OS processes; INTERNAL_ERROR is provoked by a stub '
         'instruction added via the public MainProgram constructor; where the manual is silent (SKIP + validation defect) both '
         'readings are accepted.')
CHECKS['C03'] = dict(
    level='exploration',
    technique='exhaustive enumeration of base case x insertion point x defect class x command through the real CLI; effect log (virtual process seam + sandbox root + home snapshot) must be empty',
    text='Every insertion point (each phase, each index, incl. after the last line of [cleanup]) of every defect class of the statement '
         'into effectful base cases is run under run/--keep/--act/symbol/symbol NAME/symbol NAME --ref; required: exit 65 with the '
         'documented identifier, no process started, no sandbox directory created, home tree, cwd and environ unchanged. The defect-free '
         'base cases must show all their effects, so the effect log is not vacuous.',
    note='All processes are virtual children at the single subprocess.call seam (an effect outside the sandbox needs a process); only '
         'defects the manual places before execution are used.')
CHECKS['C04'] = dict(
    level='model_checking',
    technique='explicit exploration of the sandbox lifecycle machine (every ending x mode x polluting behaviour) on the real CLI, file-system observed by virtual children at each lifecycle state',
    text='For every ending (each single fault of each step in each phase, pass, failing assertion, unstartable action) x {normal, --keep, --act} x '
         'polluting behaviour (cd to tmp/new/later-deleted dir, env changes in both sets, read-only files, children writing to tmp/, '
         'instructions needing internal temp files) x action output size, observer children record cwd and the sandbox tree at [setup], '
         '[before-assert] and [cleanup]; afterwards the sandbox root, stdout path, cwd and environ of the caller are compared with the '
         'documented lifecycle.',
    note='uid 0: permission cases run but cannot block removal; virtual children; sandbox root redirected via tempfile.tempdir.')
CHECKS['C05'] = dict(
    level='exploration',
    technique='bounded-exhaustive enumeration: every text up to a length bound x every expression of the matcher/transformer families, evaluated by the real parsers+primitives and by a reference evaluator written from the manual; CLI slice binds it to contents/stdout/file',
    text='All texts of length <=4 (thorough <=6) over {a,B,space,newline,.} plus boundary lengths (equals read-ahead 99..102, buffer 8191..8193, 65535/6) '
         'x ~600 transformer and ~700 matcher expressions (replace with/without -preserve-new-lines/-at, strip variants, char-case, filter, grep, '
         'identity, chains; is-empty, equals from 4 kinds of expected source, matches [-full][-ignore-case], num-lines, every/any line, '
         '-transformed-by, !, &&, ||) on string-, file- and identity-wrapped models: 2e6 evaluations (quick) all compared with mc/ref/text.py. '
         'A CLI slice runs every expression on 24 texts through contents / stdout / file -transformed-by in the polarity that must PASS.',
    note='Reference evaluator uses Python re for REGEX (the manual defines REGEX by reference to Python); characters other than \\n that some '
         'line splitters treat as line breaks are C14 territory.')
CHECKS['C13'] = dict(
    level='exploration',
    technique='bounded-exhaustive enumeration of line-matcher / integer-matcher trees and range lists x all texts of 0..N lines on the real filter, compared with per-line reference evaluation, with the same real matcher applied line by line, and with interval containment',
    text='~20 000 distinct line-matcher expressions (line-num with integer-level trees to depth 2, line-level trees to depth 2, mixed, and their negations; '
         'thorough: depth 3, N=9) x 26 texts of 0..6 lines, and all range lists of <=2 ranges (thorough: <=3, and 4 over a reduced set): output of the real '
         '`filter` == lines accepted by the reference == lines accepted by the same real matcher applied to each line alone, and every accepted line '
         'number lies in interval_of_matcher(matcher).  A CLI slice runs every 7th expression through stdout -transformed-by ... equals.',
    note='Found and repaired a genuine defect (fix: commit ae84285 in /repo, known_findings.json KF-C13-1).')
CHECKS['C06'] = dict(
    level='exploration',
    technique='bounded-exhaustive enumeration of expression trees x renderings (parentheses, layouts) x 6 host types through the real parsers (def + assertion in the polarity the tree gives), evaluation order observed at the process seam; reference recursive-descent parser classifies every single-token mutation',
    text='All trees to depth 2 over 3 leaves (thorough: 4 leaves + a 3-level family) for integer/line/text/file/files matchers x 4 rendering styles (thorough 8), every '
         'placement of one and two redundant parenthesis pairs and all 6 layouts on the depth-1 trees, | chains of non-commuting transformers to length 3 in 4 '
         'groupings x 3 layouts, 40 simple-expression contexts followed by an outer operator, and every single-token deletion/duplication/transposition of the '
         'depth-1 renderings (valid per the documented grammar => reference value, invalid => exit 65).  Lazy left-to-right evaluation is checked exactly: '
         'run-leaves have unique program names and the call log must equal the short-circuit order of the tree.',
    note='A line break before an infix operator is treated as may-be-rejected (thorough tier only); arguments may continue on following lines, so malformed '
         'expressions are placed at the end of the file.')
CHECKS['C14'] = dict(
    level='model_checking',
    technique='explicit-state exploration of real StringSource objects: every short sequence of access events (freeze / as_str / as_lines fully, partially, in two steps / as_file / write_to) x source kind x transformer chain x mem_buff_size x text, every observation compared with one reference text',
    text='~3.9e6 event sequences (quick) on sources built by the public factories/parsers: {constant, here-document, file, program output} x model frozen first or not x 15 transformer chains '
         '(thorough 20) x all event sequences of length <=2 plus freeze-prefixed length 3 (thorough: all of length 3) x mem_buff_size {1,2,|T|,|T|+1,8192} (and 100/8191..8193 on large texts) x all texts of '
         'length <=2 (thorough 3) over {a,LF,CR,FF,NEL,LS} plus CR LF / no-final-newline / buffer-sized texts.  Every observation must equal the single reference text and its division at LF.  '
         'CLI slice: M, identity-wrapped M, ( M && M ), run-cat-wrapped M and equals between all source kinds must all pass for the same text, with MainPrograms built with mem_buff_size 1 (3, 7).',
    note='Found and repaired KF-C14-SPLITLINES (fix: commit in /repo); KF-C14-CR (universal-newline translation of CR) is a recorded known finding matched by predicate + defect model; '
         'virtual children write through the file descriptor like real ones.')
CHECKS['C11'] = dict(
    level='model_checking',
    technique='explicit-state BFS over histories of cd/env/timeout/next-phase events with deduplication on the reference settings state; each transition executes the whole history through the real CLI with a probe process after every event',
    text='BFS to depth 4 (thorough 6) over 26 events (cd x4, env set/unset x6 x {both, -of act, -of !act}, timeout x3, next phase): 4146 canonical states / 28331 '
         'transitions in the quick tier; every transition is one real execution of a generated test case whose probes (and the action to check) must see '
         'exactly the cwd, environment and timeout the reference machine has after the events before them and none after.',
    note='Probes are virtual children recording cwd / env / timeout at the subprocess.call seam; dedupe is sound because every transition re-validates the full '
         'history from a fresh world; a child that chdirs is only in the real-process slices.')
CHECKS['C19'] = dict(
    level='model_checking',
    technique='exhaustive exploration of place x child-duration class x timeout history under a virtual clock at the process seam (call/Popen/run surface), plus a real-process slice with a compiled sleeper (incl. SIGTERM-ignoring)',
    text='19 places where a process can be started x durations {T-1, T, T+1, never ends, never ends ignoring SIGTERM} x 9 timeout histories: the timeout each process '
         'runs under must be the one in force (reference machine), d > t must give HARD_ERROR in that phase with no later forward process, [cleanup] processes started, '
         'sandbox removed and virtual time bounded by the sum of timeouts; a never-ending child under `timeout = none` must be waited for. Real slice: 8 places x {sleeper, '
         'SIGTERM-ignoring sleeper} with timeout = 1: exactly returns < 10 s, HARD_ERROR, child pid gone, sandbox removed.',
    note='Scheduling is reduced to the one schedule-dependent quantity: whether the child outlives the timeout (virtual clock). Kernel-level facts are sampled by the real '
         'slice only. Shell places use `exec` so that the sleeper is the process exactly starts.')
CHECKS['C10'] = dict(
    level='exploration',
    technique='denotation-first bounded-exhaustive enumeration of program form x argument list x stdin x symbol chain x place x exit code through the real CLI; the virtual child logs what it is given; real-process slice with a compiled probe',
    text='Every single item and selected pairs of an 18-item argument family (plus text-until-end-of-line and line continuation) under 5 program forms at the action to check '
         'and as an instruction; every place (11) x form x 7 stdin arrangements; verbatim shell lines at 6 places; exit codes (quick 5 boundary values, thorough 0..255) with the '
         'FAIL / HARD_ERROR / -ignore-exit-code policy at 9 places and, at the action to check, with transformation-carrying program symbols; the 3 other actors; cwd after cd at '
         'every place. argv, stdin and cwd logged at the seam must equal the denoted ones and exit-code / stdout / stderr assertions on the scripted output must pass. '
         '~80 cases are re-run with a real process (compiled probe dumping argv/stdin/cwd) and must agree with the virtual log.',
    note='Environment sets belong to C11; output of real processes is only compared for argv/stdin/cwd.')
CHECKS['C20'] = dict(
    level='exploration',
    technique='complete enumeration of a finite domain through the real CLI: every (phase, candidate name), suite (section, name), entity, builtin symbol, help request and HTML href/id',
    text='Accepted instruction names are determined behaviourally per phase (a one-line case; "Unknown instruction" <=> rejected) for every candidate name (help listings, public '
         'instruction tables, bogus names) and must equal the names the help lists for that phase; every listed item\'s help page must display (exit 0, stdout, no stderr); builtin '
         'symbols listed <=> usable without definition; in `help htmldoc` every href="#x" has exactly one anchor and no anchor occurs twice.',
    note='Listing formats of the help output are parsed by the harness (first column).')
CHECKS['C16'] = dict(
    level='exploration',
    technique='bounded-exhaustive enumeration of suite hierarchy x verdict assignment x reporter through the real CLI, against a suite reference model (processing order, execution count, OK/ERROR, JUnit counts)',
    text='10 valid hierarchies (plain names, globs, sub/*.case, one/two sub-suites, depth 2, directory arguments with exactly.suite, sub-suite globs) x all 11^n verdict assignments '
         'for n<=2 cases (n=3 on the flat hierarchy; thorough: 3 everywhere) x {progress, junit}: action markers give execution count and order, progress lines and final OK/0 vs ERROR/4, '
         'JUnit tests / failures+errors / failure-or-error children per case; 14 invalid suites x both reporters must give exit 3, INVALID_SUITE and zero executed cases.',
    note='Found and repaired KF-C16-1 (fix: commit b63314c in /repo). Durations in reporter output are ignored.')
CHECKS['C17'] = dict(
    level='model_checking',
    technique='explicit exploration of histories of polluting/observing cases inside one suite process (state = what the next case finds), differential against each case run alone; exhaustive subsets of suite/case phase contents x run mode',
    text='A: every sequence of <=3 (thorough 4) cases over 11 kinds (cd, cd into a later-deleted dir, env set/unset in both sets, timeout, def, files in act/ and tmp/, read-only files, '
         'ending in HARD_ERROR / INTERNAL_ERROR / FAIL after polluting) in one suite run: each case\'s first probe must find the pristine state (cwd, env populated from the default, timeout, empty act/ '
         'and tmp/, exactly one sandbox) and its identifier must equal the standalone one (--suite S CASE; CASE beside exactly.suite). B: 64x64 subsets of phases supplied by suite and case x 3 run modes '
         '(with a decoy exactly.suite under --suite): marker order suite-then-case (cleanup: case-then-suite), concatenated act source, sub-suite isolation. C: suite-supplied contents referencing '
         'per-case symbols / sandbox builtins through 15 instruction kinds over all orderings of 2-3 cases.',
    note='Virtual children as probes; Y=y0 in the caller environment; chunk-prefix replay makes cross-case leaks through module state reproducible.')
CHECKS['C07'] = dict(
    level='exploration',
    technique='bounded-exhaustive enumeration of documents over a line-kind alphabet, of order-preserving phase-block permutations and of inclusion graphs, parsed by the real test-case parser and compared with an independent reader of the documented file syntax',
    text='All 88 741 documents of <=4 items (thorough <=5) over 17 line kinds x {final newline, none}: per-phase elements, first line numbers and source lines (or the line of the single error) '
         'must equal the independent reader; every order-preserving permutation of the phase blocks of the valid 4-item documents gives the same per-phase contents; 155 main files x 9 x 5 '
         'variants of included files (diamonds, same file twice, self/a<->b/back-to-main cycles, missing file, sub-directory relative paths, phase changes inside included files): spliced '
         'sequences, line numbers and inclusion chains; 8 CLI error reports must name file, line, text and the including chain in order.',
    note='Instruction identity = the symbol a `def string` defines; the same-line description case accepts either reading of the element source.')
CHECKS['C09'] = dict(
    level='exploration',
    technique='denotation-first bounded-exhaustive enumeration of quoted/concatenated strings x follower x context, here-documents, text-until-end-of-line and unterminated quotes through the real CLI; denotation known by construction',
    text='~1 400 strings of 1..3 adjacent fragments (naked / soft / hard x a 17..19-element content family incl. #, backslash, quotes, references, ill-formed references, reserved and option-like words) '
         'x 5 followers x 3 contexts (program argument vector, file contents, list elements), every soft/hard splitting of 3 fixed strings, 9 text-until-end-of-line forms, here-documents with 3 markers x '
         'all bodies of <=3 lines over 8 marker/header/comment-like line kinds x {terminated, terminator last without newline, missing}, unterminated quotes at every position: the argv / file contents '
         'observed at the process seam must equal the denotation; syntax errors must name the containing instruction.',
    note='Found and repaired KF-C09-HASH (fix: commit in /repo); KF-C09-QUOTE (quoting type of a mixed token decided by its first character) is a recorded known finding matched by predicate + defect model.')
CHECKS['C08'] = dict(
    level='exploration',
    technique='bounded-exhaustive enumeration of def/use programs over phases and file orders against a reference interpreter, and of (provenance of a symbol) x (context with a documented type demand), through the real CLI with the effect log',
    text='All programs of <=2 placed statements over 7 statement kinds x 5 phases and all programs of 3 over {def A, def B(A), use A, use B} x 4 phases, each in 2-3 file orders of the phase blocks (~10 000 runs): '
         'the reference interpreter (execution order = phase order, then file order) decides VALIDATION_ERROR-with-no-effects vs PASS-with-probe-values; 17 provenances (7 types directly, strings built from '
         'string/list/path through 1 and 2 definitions, list/path hidden behind a sibling reference, list holding a path) x 24 contexts x 2 definition phases against the accepted-type table incl. the "purely '
         'string, transitively" contexts; 8 value-rendering cases (concatenation, splicing, list-in-string, absolute paths, -rel-cd at reference time, builtins).',
    note='Accepted-type table transcribed from the manual pages and the statement\'s transitivity clause; calibrated against the unchanged tree with 0 disagreements.')
CHECKS['C12'] = dict(
    level='exploration',
    technique='bounded-exhaustive enumeration of relativity x role x suffix shape x symbol chain x cd history through the real CLI; resolved paths observed at the process seam / on disk, home tree snapshot',
    text='Resolution: every relativity option and the default x 5 suffix shapes x cd between definition and use x phase; chains of 2 (thorough 3) path definitions mixing -rel SYM and @[SYM]@/suffix over every base; '
         'the same cd-relative symbol (and derived symbols) used before and after several cd; suffixes with repeated slashes. Destinations: 5 roles x every option (accepted => created at the documented place, '
         'other => SYNTAX_ERROR) x symbol chains of depth 1..3 over every base and 4 reference forms (non-writable base => VALIDATION_ERROR before execution, nothing executed, home unchanged) x 5 ways of giving an '
         'absolute path. Reading: 8 roles x every option and default with the file present only under the documented root.',
    note='KF-C12-ABS (absolute FILE-NAME escapes the relativity; also in the repository\'s doc/BUGS.rst) is a recorded known finding matched by predicate + defect model; reading roles may be more liberal than their help page lists.')
CHECKS['C18'] = dict(
    level='exploration',
    technique='exhaustive single-mutation neighbourhood (token deletion / duplication / transposition / replacement by 48 troublesome tokens, truncation at every character, quote imbalance, self-reference) of a seed corpus with every instruction and type form, run through the real CLI with virtual processes',
    text='~130 valid seed lines (every instruction of every phase, every form of every type, definitions and applied forms) each checked to pass, then every single mutation (~100 000 cases, quick; thorough adds all pairs of '
         'replacements from a reduced set): execute must return, exit code in {0,32,33,65,128}, stdout exactly one identifier consistent with it, never INTERNAL_ERROR / traceback / escaping exception / endless wait; '
         'exit 65 names the source. Plus header mutations and raw files (empty, NUL bytes, BOM, CR LF, 100 kB line, thousands of blank lines).',
    note='The property quantifies over every UTF-8 text; what is decided is the complete 1- (thorough: partial 2-) mutation neighbourhood of the corpus. Found and repaired KF-C18-INT and KF-C18-REPL (fix: commits); '
         'KF-C18-NAMETOOLONG is a recorded known finding matched by predicate + defect model. Unbounded-cost inputs (9**9**9) are not generated.')
CHECKS['C15'] = dict(
    level='exploration',
    technique='bounded-exhaustive enumeration of FILE-LISTs (populate) and of trees x files-matcher expressions x depth options (match) through the real CLI against a reference model over a tree data structure',
    text='Populate: every list of <=2 entries over 5 names x 8 entry kinds (file, =, +=, dir, nested =, nested +=, dir-contents-of as = and +=) plus invalid names, every list of 3 over a reduced alphabet, each as `dir d = L` and as '
         '`dir d += L` onto a directory holding a file, a directory and symbolic links (to file, to dir, dangling): ~16 000 runs under --keep; tree on disk == reference interpretation, or HARD_ERROR (invalid names: rejected), '
         'nothing outside d, home unchanged; 11 whole-directory / through-a-link cases. Match: all 441 trees of <=4 nodes (thorough 981 of <=5) from a 14-item universe x 160 files-matcher expressions x 5 (thorough 8) depth options, '
         'each asserted through dir-contents in the polarity the reference gives.',
    note='uid 0 (no permission failures); the partial tree after a failing population is not compared; `contents` only on regular files.')
NOT_APPLICABLE = {}
