"""C12 — paths resolve under their relativity root; home directories are write-protected (DESIGN §3 C12).

Part R: resolution: `def path P = REL SUFFIX` (every relativity, symbol chains, suffix shapes, cd between definition and use) and
        the absolute path a probe is given.
Part D: destination roles (file, dir, copy destination, cd): accepted options resolve to the documented place; other options are
        syntax errors; path symbols that are (transitively) relative to a home directory / result / absolute are VALIDATION_ERROR
        before execution, home unchanged.
Part S: reading roles: accepted relativities and defaults resolve to the documented root.
"""
import itertools
import os

from mc import world, procseam, cli, kf
from mc.result import Result

PROPERTY = 'C12'
LEVEL = 'exploration'
CHUNK = 50
RULE = ('R: relativity {default, -rel-home, -rel-act-home, -rel-act, -rel-tmp, -rel-result, -rel-cd, -rel-here, -rel SYM over every base} x suffix {x, d/x, @[S]@/x, x@[S]@, @[P]@/x, @[P]@, empty; after a leading @[P]@: 6 suffixes of several fragments} x chain of '
        'path definitions of depth 0..2 (thorough 3) mixing -rel SYM and @[SYM]@/suffix x cd between definition and use x phase of use; D: 5 destination roles x {accepted option, default, forbidden '
        'option, via symbol chain of depth 1..3 over every base relativity, absolute literal, absolute via string symbol} + 5 instruction shapes using ONE symbol both for the file read and the file created; Rhere: -rel-here definitions in 3 files of 3 directories in every order / in the cases of a suite run; S: 8 reading roles x every relativity option and the default; '
        'non-trivial = the path is not given by a plain relative name with the default relativity')
ASSUMPTIONS = [
    'root table and accepted-relativity tables transcribed from `help syntax PATH`, `help setup def`, and the help page of each instruction',
    'act-home is set to the sub-directory ah of the home directory so that the two home roots differ',
]

ROOTS = ('home', 'act-home', 'act', 'tmp', 'result', 'cd', 'here')
OPT = {'home': '-rel-home', 'act-home': '-rel-act-home', 'act': '-rel-act', 'tmp': '-rel-tmp', 'result': '-rel-result', 'cd': '-rel-cd', 'here': '-rel-here'}
WRITABLE = ('act', 'tmp', 'cd')


def root_dir(r, sds, home, cwd):
    return {'home': home, 'act-home': home + '/ah', 'act': sds + '/act', 'tmp': sds + '/tmp', 'result': sds + '/result', 'cd': cwd, 'here': home}[r]


SUFFIXES = [('x', 'x'), ('d/x', 'd/x'), ('@[S]@/x', 'sd/x'), ('x@[S]@', 'xsd'), ('"a b"/x', 'a b/x')]


def prepare(tier):
    cli.main_program()
    procseam.install()


def cases(tier):
    # R
    for r in ROOTS:
        for si in range(len(SUFFIXES)):
            for cd in (False, True):
                for phase in ('setup', 'assert'):
                    yield ('R0', r, si, cd, phase)
    yield ('R0', None, 0, False, 'setup')
    yield ('R0', None, 0, True, 'assert')
    for base in ROOTS:
        for how in itertools.product(('rel', 'lead'), repeat=2 if tier == 'quick' else 3):
            for cd in (False, True):
                yield ('Rchain', base, how, cd)
    for base in (None, 'cd'):
        for derived in ('direct', 'rel', 'lead', 'rel-lead'):
            for phase in ('setup', 'assert'):
                yield ('Rcd', base, derived, phase)
    for base in ROOTS:
        yield ('Rslash', base)
        yield ('Rlead', base)
    # -rel-here in several files of several directories (the root is the directory of the file the definition stands in)
    for order in itertools.permutations(('main', 'sub', 'deep')):
        for first in (None, 'tmp', 'here'):
            for phase in ('setup', 'assert'):
                yield ('Rhere', order, first, phase)
    for first in (None, 'tmp', 'here'):
        for dirs in (('a', 'b'), ('b', 'a'), ('a', 'a/n'), ('.', 'a')):
            yield ('RhereSuite', first, dirs)
    # D
    for role in DEST_ROLES:
        for r in (None,) + ROOTS:
            yield ('Dopt', role, r)
        for base in ROOTS + (None,):
            for depth in (1, 2, 3):
                for form in ('rel', 'lead', 'bare', 'lead-double-slash'):
                    yield ('Dsym', role, base, depth, form)
        for how in ('literal', 'literal-with-option', 'string-symbol', 'string-symbol-with-option', 'string-symbol-lead',
                    'path-symbol-abs-under-option-rel', 'path-symbol-abs-under-option-lead', 'path-symbol-abs-under-option-chain'):
            yield ('Dabs', role, how)
    # a path symbol smuggled into a path-to-create through a STRING symbol (every symbol a path component is built from must be a string)
    for role in DEST_ROLES:
        for base in ROOTS + (None,):
            for pos in ('only', 'first', 'second', 'third', 'nested-second'):
                for usage in ('lead', 'suffix'):
                    yield ('Dstr', role, base, pos, usage)
    # the same symbol in a reading role and in a creating role (restrictions belong to the reference, not to the name)
    for shape in SAME_SHAPES:
        for base in ROOTS + (None,):
            for depth in (1, 2):
                for form in ('rel', 'lead'):
                    yield ('Dsame', shape, base, depth, form)
    # S
    for role in SRC_ROLES:
        for r in (None,) + ROOTS:
            yield ('S', role, r)
            # the file name given by string symbols (a string symbol has no relativity of its own: option / default of the ARGUMENT apply)
            for form in ('bare', 'quoted', 'glued'):
                yield ('S', role, r, form)


HEAD = ['[conf]', 'act-home = ah', '[setup]', "def string S = 'sd'"]


def _world(w, seam):
    w.reset()
    seam.reset()
    seam.default = {'exit': 0}
    w.write('ah/in-act-home.txt', 'AH\n')
    w.write('in-home.txt', 'H\n')
    w.write('srcdir/f.txt', 'x\n')
    w.write('ah/srcdir-ah/f.txt', 'x\n')
    exe = w.write('prog-in-home', '#!/bin/sh\n')
    os.chmod(exe, 0o755)
    exe = w.write('ah/prog-in-ah', '#!/bin/sh\n')
    os.chmod(exe, 0o755)


def run(case) -> Result:
    res = Result()
    res.n = 1
    w = world.get()
    seam = procseam.SEAM
    _world(w, seam)
    k = case[0]
    if k == 'R0':
        return _r0(res, case, w, seam)
    if k == 'Rchain':
        return _rchain(res, case, w, seam)
    if k == 'Rcd':
        return _rcd(res, case, w, seam)
    if k == 'Rslash':
        return _rslash(res, case, w, seam)
    if k == 'Rlead':
        return _rlead(res, case, w, seam)
    if k == 'Dopt':
        return _dopt(res, case, w, seam)
    if k == 'Dsym':
        return _dsym(res, case, w, seam)
    if k == 'Dabs':
        return _dabs(res, case, w, seam)
    if k == 'Dsame':
        return _dsame(res, case, w, seam)
    if k == 'Dstr':
        return _dstr(res, case, w, seam)
    if k == 'Rhere':
        return _rhere(res, case, w, seam)
    if k == 'RhereSuite':
        return _rhere_suite(res, case, w, seam)
    return _src(res, case, w, seam)


def _sds_of(calls):
    import re
    for c in calls:
        for cand in [c['cwd']] + [a for a in (c['args'] if isinstance(c['args'], list) else [])]:
            m = re.match(r'(.*/sb/exactly-[^/]+)', str(cand))
            if m:
                return m.group(1)
    return None


def _r0(res, case, w, seam):
    _, r, si, cd, phase = case
    ssrc, sden = SUFFIXES[si]
    opt = (OPT[r] + ' ') if r else ''
    lines = list(HEAD) + ['run % first', 'def path P = %s%s' % (opt, ssrc)]
    use = ['run % probe @[P]@']
    if cd:
        use = ['dir -rel-tmp moved/here', 'cd -rel-tmp moved/here'] + use
    if phase == 'setup':
        lines += use + ['[act]', '% atc']
    else:
        lines += ['[act]', '% atc', '[assert]'] + use
    text = '\n'.join(lines) + '\n'
    o = cli.run_case(text)
    errs = []
    if o.ident != 'PASS':
        errs.append('outcome %s / %s' % (o.ident, ' / '.join(cli.stderr_lines(o.err)[-3:])[:300]))
    pc = [c for c in seam.calls if c['name'] == 'probe']
    sds = _sds_of(seam.calls)
    if pc and sds:
        cwd = sds + ('/tmp/moved/here' if cd else '/act')
        want = root_dir(r or 'cd', sds, str(w.home), cwd) + '/' + sden
        if pc[0]['args'][1:] != [want]:
            errs.append('`def path P = %s%s` referenced %s resolves to %s, documented root gives %s' % (
                opt, ssrc, 'after cd' if cd else 'without cd', pc[0]['args'][1:], want))
    elif not errs:
        errs.append('probe not run')
    res.outcomes[('R0', r, o.ident)] += 1
    res.nontrivial += 1
    if not res.samples and r == 'cd' and cd:
        res.samples.append({'file': text, 'probe': pc[0]['args'] if pc else None})
    if errs:
        res.violation(case, errs, {'file': text})
    return res


def _chain_defs(base, how, leaf_name='P'):
    """B0 = -rel-BASE b0 ; B1 = (-rel B0 b1 | @[B0]@/b1) ; ... ; returns (lines, relative suffix under the base root, last symbol name)"""
    lines = ['def path B0 = %sb0' % ((OPT[base] + ' ') if base else '')]
    sfx = 'b0'
    for i, h in enumerate(how, 1):
        if h == 'rel':
            lines.append('def path B%d = -rel B%d b%d' % (i, i - 1, i))
        else:
            lines.append('def path B%d = @[B%d]@/b%d' % (i, i - 1, i))
        sfx += '/b%d' % i
    return lines, sfx, 'B%d' % len(how)


def _rchain(res, case, w, seam):
    _, base, how, cd = case
    defs, sfx, last = _chain_defs(base, how)
    lines = list(HEAD) + ['run % first'] + defs
    if cd:
        lines += ['dir -rel-tmp moved', 'cd -rel-tmp moved']
    lines += ['run %% probe @[%s]@ "in string @[%s]@"' % (last, last), '[act]', '% atc']
    text = '\n'.join(lines) + '\n'
    o = cli.run_case(text)
    errs = []
    if o.ident != 'PASS':
        errs.append('outcome %s / %s' % (o.ident, ' / '.join(cli.stderr_lines(o.err)[-3:])[:300]))
    pc = [c for c in seam.calls if c['name'] == 'probe']
    sds = _sds_of(seam.calls)
    if pc and sds:
        cwd = sds + ('/tmp/moved' if cd else '/act')
        want = root_dir(base, sds, str(w.home), cwd) + '/' + sfx
        if pc[0]['args'][1:] != [want, 'in string ' + want]:
            errs.append('chain %s over %s resolves to %s, expected %s' % (how, base, pc[0]['args'][1:], want))
    elif not errs:
        errs.append('probe not run')
    res.outcomes[('Rchain', base, o.ident)] += 1
    res.nontrivial += 1
    if errs:
        res.violation(case, errs, {'file': text})
    return res


def _rcd(res, case, w, seam):
    """A path relative to the current directory is resolved at the time of each use: the same symbol used before and after cd."""
    _, base, derived, phase = case
    opt = (OPT[base] + ' ') if base else ''
    defs = ['def path C = %shere' % opt]
    sym, sfx = 'C', 'here'
    if derived in ('rel', 'rel-lead'):
        defs.append('def path D = -rel C d')
        sym, sfx = 'D', 'here/d'
    if derived == 'lead':
        defs.append('def path D = @[C]@/d')
        sym, sfx = 'D', 'here/d'
    if derived == 'rel-lead':
        defs.append('def path E = @[D]@/e')
        sym, sfx = 'E', 'here/d/e'
    uses = ['run %% probe 1 @[%s]@' % sym, 'dir one/two', 'cd one', 'run %% probe 2 @[%s]@' % sym, 'cd two', 'run %% probe 3 @[%s]@ "@[%s]@"' % (sym, sym),
            'cd -rel-tmp .', 'run %% probe 4 @[%s]@' % sym]
    lines = list(HEAD) + ['run % first'] + defs
    if phase == 'setup':
        lines += uses + ['[act]', '% atc']
    else:
        lines += uses[:2] + ['[act]', '% atc', '[assert]'] + uses[2:]
    text = '\n'.join(lines) + '\n'
    o = cli.run_case(text)
    errs = []
    if o.ident != 'PASS':
        errs.append('outcome %s / %s' % (o.ident, ' / '.join(cli.stderr_lines(o.err)[-3:])[:300]))
    sds = _sds_of(seam.calls)
    got = {c['args'][1]: c['args'][2:] for c in seam.calls if c['name'] == 'probe'}
    if sds:
        cwds = {'1': '/act', '2': '/act/one', '3': '/act/one/two', '4': '/tmp'}
        for n, cw in cwds.items():
            want = sds + cw + '/' + sfx
            if not got.get(n) or any(g != want for g in got[n]):
                errs.append('use %s of %s (current directory <sds>%s): resolves to %s, expected %s' % (n, sym, cw, got.get(n), want.replace(sds, '<sds>')))
    res.outcomes[('Rcd', o.ident)] += 1
    res.nontrivial += 1
    if errs:
        res.violation(case, errs, {'file': text})
    return res


def _rslash(res, case, w, seam):
    """A suffix after a leading path-symbol reference that starts with extra slashes still lies under the symbol's root."""
    _, base = case
    lines = list(HEAD) + ['run % first', 'def path B = %sb' % (OPT[base] + ' '), 'def path P1 = @[B]@//x', 'def path P2 = @[B]@///y/z',
                          'run % probe @[P1]@ @[P2]@ @[B]@//w', '[act]', '% atc']
    text = '\n'.join(lines) + '\n'
    o = cli.run_case(text)
    errs = []
    if o.ident != 'PASS':
        errs.append('outcome %s / %s' % (o.ident, ' / '.join(cli.stderr_lines(o.err)[-3:])[:300]))
    sds = _sds_of(seam.calls)
    pc = [c for c in seam.calls if c['name'] == 'probe']
    if pc and sds:
        root = root_dir(base, sds, str(w.home), sds + '/act') + '/b'
        norm = [os.path.normpath(a) for a in pc[0]['args'][1:]]
        want = [root + '/x', root + '/y/z', root + '/w']
        if norm != want:
            errs.append('paths %s, expected (under the symbol\'s root) %s' % (pc[0]['args'][1:], want))
    res.outcomes[('Rslash', o.ident)] += 1
    res.nontrivial += 1
    if errs:
        res.violation(case, errs, {'file': text})
    return res


def _rlead(res, case, w, seam):
    """A leading path-symbol reference followed by a suffix of SEVERAL fragments (constants and string references in every order):
    the path lies under the symbol's root, whatever the last fragment is."""
    _, base = case
    shapes = [('@[B]@/d/@[S]@', 'd/sd'), ('@[B]@/@[S]@.txt', 'sd.txt'), ('@[B]@/@[S]@/@[S]@', 'sd/sd'), ('@[B]@/@[S]@/x', 'sd/x'), ('@[B]@/x-@[S]@-y/@[S]@', 'x-sd-y/sd'),
              ('@[B]@/"q r"/@[S]@', 'q r/sd')]
    lines = list(HEAD) + ['run % first', 'def path B = %sb' % (OPT[base] + ' ')]
    lines += ['def path P%d = %s' % (i, src) for i, (src, _) in enumerate(shapes)]
    lines += ['run % probe ' + ' '.join('@[P%d]@' % i for i in range(len(shapes))), 'run % probe2 ' + ' '.join(src for src, _ in shapes if '"' not in src), '[act]', '% atc']
    text = '\n'.join(lines) + '\n'
    o = cli.run_case(text)
    errs = []
    if o.ident != 'PASS':
        errs.append('outcome %s / %s' % (o.ident, ' / '.join(cli.stderr_lines(o.err)[-3:])[:300]))
    sds = _sds_of(seam.calls)
    pc = [c for c in seam.calls if c['name'] == 'probe']
    if pc and sds:
        root = root_dir(base, sds, str(w.home), sds + '/act') + '/b'
        got = [os.path.normpath(a) for a in pc[0]['args'][1:]]
        want = [root + '/' + den for _, den in shapes]
        if got != want:
            errs.append('paths %s, expected (under the symbol\'s root) %s' % (pc[0]['args'][1:], want))
    res.outcomes[('Rlead', o.ident)] += 1
    res.nontrivial += 1
    if errs:
        res.violation(case, errs, {'file': text})
    return res


# destination roles: name -> (template with {P}, kind of thing created, phase)
DEST_ROLES = {
    'file': ("file {P} = 'made'", 'file'),
    'dir': ('dir {P}', 'dir'),
    'copy-dst': ('copy in-home.txt {P}', 'file'),
    'file-in-cleanup': ("file {P} = 'made'", 'file'),
    'dir-with-contents': ('dir {P} = { file inner.txt }', 'dir'),
}


def _dest_case(role, pathsrc, pre=()):
    tmpl, kind = DEST_ROLES[role]
    lines = list(HEAD) + list(pre)
    instr = tmpl.replace('{P}', pathsrc)
    if role == 'file-in-cleanup':
        lines += ['run % first', '[act]', '% atc', '[cleanup]', instr]
    else:
        lines += ['run % first', instr, '[act]', '% atc']
    return '\n'.join(lines) + '\n', kind


def _run_keep(text):
    o = cli.run_case(text, args=['--keep'])
    sds = o.out.strip() if o.out.strip() and os.path.isdir(o.out.strip()) else None
    ident = o.err.split('\n')[0]
    return o, sds, ident


def _home_snapshot(w):
    snap = world.snapshot_tree(w.home)
    snap.pop('c.case', None)  # the test-case file itself is written by the harness
    return snap


def _dopt(res, case, w, seam):
    _, role, r = case
    opt = (OPT[r] + ' ') if r else ''
    text, kind = _dest_case(role, opt + 'made-here')
    snap = _home_snapshot(w)
    o, sds, ident = _run_keep(text)
    errs = []
    accepted = r in (None,) + WRITABLE
    if accepted:
        if ident != 'PASS' or not sds:
            errs.append('%s with %s is documented as accepted: got %s / %s' % (role, opt or 'the default relativity', ident, ' / '.join(cli.stderr_lines(o.err)[-3:])[:300]))
        else:
            want = root_dir(r or 'cd', sds, str(w.home), sds + '/act') + '/made-here'
            if not os.path.lexists(want):
                errs.append('%s %smade-here: nothing at %s' % (role, opt, want.replace(sds, '<sds>')))
    else:
        if ident != 'SYNTAX_ERROR' or o.rc != 65:
            errs.append('%s with %s: only act / tmp / cd are accepted for a path to create: expected SYNTAX_ERROR, got %s' % (role, opt, ident))
        if seam.calls or sds:
            errs.append('the case was executed')
    if _home_snapshot(w) != snap:
        errs.append('home directory changed')
    res.outcomes[('Dopt', accepted, ident)] += 1
    res.nontrivial += 1 if r else 0
    if errs:
        res.violation(case, errs, {'file': text})
    return res


def _dsym(res, case, w, seam):
    _, role, base, depth, form = case
    how = ('rel', 'lead', 'rel')[:depth - 1]
    defs, sfx, last = _chain_defs(base, how)
    if form == 'rel':
        psrc, tail = '-rel %s leaf' % last, '/leaf'
    elif form == 'lead':
        psrc, tail = '@[%s]@/leaf' % last, '/leaf'
    elif form == 'lead-double-slash':
        psrc, tail = '@[%s]@//leaf' % last, '/leaf'  # POSIX: repeated slashes are one
    else:
        psrc, tail = '@[%s]@' % last, ''
    text, kind = _dest_case(role, psrc, pre=defs)
    snap = _home_snapshot(w)
    o, sds, ident = _run_keep(text)
    errs = []
    ok_base = base in (None,) + WRITABLE
    if ok_base:
        if ident != 'PASS' or not sds:
            errs.append('%s at a path symbol relative to %s (chain depth %d, %s): accepted by documentation, got %s / %s' % (
                role, base or 'the default (cd)', depth, form, ident, ' / '.join(cli.stderr_lines(o.err)[-3:])[:300]))
        else:
            want = root_dir(base or 'cd', sds, str(w.home), sds + '/act') + '/' + sfx + tail
            if not os.path.lexists(want):
                errs.append('%s %s: nothing at %s' % (role, psrc, want.replace(sds, '<sds>')))
    else:
        if ident != 'VALIDATION_ERROR' or o.rc != 65:
            errs.append('%s at a path symbol that is (through %d definitions, %s) relative to %s must be rejected before execution: got %s' % (role, depth, form, base, ident))
        if seam.calls or sds:
            errs.append('the case was executed (processes %s)' % [c['args'] for c in seam.calls][:2])
    if _home_snapshot(w) != snap:
        errs.append('home directory changed: %s' % sorted(set(_home_snapshot(w)) ^ set(snap))[:4])
    res.outcomes[('Dsym', ok_base, ident)] += 1
    res.nontrivial += 1
    if not res.samples and not ok_base and depth == 3:
        res.samples.append({'file': text, 'outcome': ident})
    if errs:
        res.violation(case, errs, {'file': text})
    return res


def _dabs(res, case, w, seam):
    """An absolute path as destination (it lies in the home directory here): must be rejected, home unchanged."""
    _, role, how = case
    target = str(w.home / 'ah' / 'escaped')
    pre = []
    if how == 'literal':
        psrc = target
    elif how == 'literal-with-option':
        psrc = '-rel-act ' + target
    elif how == 'string-symbol':
        pre = ["def string ABS = '%s'" % target]
        psrc = '@[ABS]@'
    elif how == 'string-symbol-with-option':
        pre = ["def string ABS = '%s'" % target]
        psrc = '-rel-tmp @[ABS]@'
    elif how.startswith('path-symbol-abs-under-option'):
        # a PATH symbol defined with a legal relativity option and an absolute constant suffix IS an absolute path (its relativity is "absolute")
        pre = ['def path OUT = -rel-tmp %s' % str(w.home / 'ah')]
        if how.endswith('-rel'):
            psrc = '-rel OUT escaped'
        elif how.endswith('-lead'):
            psrc = '@[OUT]@/escaped'
        else:
            pre += ['def path OUT2 = -rel OUT sub', 'def path OUT3 = @[OUT2]@/deeper']
            psrc = '-rel OUT3 escaped'
            target = str(w.home / 'ah' / 'sub' / 'deeper' / 'escaped')
    else:
        pre = ["def string ABS = '%s'" % str(w.home / 'ah'), 'def path PA = @[ABS]@/sub']
        psrc = '-rel PA escaped'
        target = str(w.home / 'ah' / 'sub' / 'escaped')
    text, kind = _dest_case(role, psrc, pre=pre)
    snap = _home_snapshot(w)
    o, sds, ident = _run_keep(text)
    errs = []
    changed = _home_snapshot(w) != snap
    if ident not in ('VALIDATION_ERROR', 'SYNTAX_ERROR') or o.rc != 65:
        errs.append('%s at the absolute path %s (%s): an absolute destination must be rejected before execution, got %s' % (role, target, how, ident))
    if changed:
        errs.append('the home directory was modified: %s now exists' % target)
    res.outcomes[('Dabs', ident, changed)] += 1
    res.nontrivial += 1
    if errs:
        hit = kf.classify_c12(how, ident, changed, os.path.lexists(target), bool(seam.calls))
        if hit:
            res.kf[hit] += 1
        else:
            res.violation(case, errs, {'file': text})
    return res


def _dstr(res, case, w, seam):
    _, role, base, pos, usage = case
    pre = ['def path PB = %sb0' % ((OPT[base] + ' ') if base else ''), "def string NIL = ''", "def string SEP = '/'"]
    body = {'only': '@[PB]@', 'first': '@[PB]@@[NIL]@', 'second': '@[NIL]@@[PB]@', 'third': '@[NIL]@@[NIL]@@[PB]@'}.get(pos)
    if pos == 'nested-second':
        pre.append('def string INNER = @[NIL]@@[PB]@')
        body = '@[NIL]@@[INNER]@'
    pre.append('def string STR = %s' % body)
    psrc = '@[STR]@/leaf' if usage == 'lead' else '-rel-tmp @[STR]@/leaf'
    text, kind = _dest_case(role, psrc, pre=pre)
    snap = _home_snapshot(w)
    o, sds, ident = _run_keep(text)
    errs = []
    if ident != 'VALIDATION_ERROR' or o.rc != 65:
        errs.append('%s at %s where STR is a string built from the PATH symbol PB (%s, position %s): every symbol of a path component must be a string: expected VALIDATION_ERROR, got %s' % (
            role, psrc, base or 'default relativity', pos, ident))
    if seam.calls or sds:
        errs.append('the case was executed')
    if _home_snapshot(w) != snap:
        errs.append('home directory changed: %s' % sorted(set(_home_snapshot(w)) ^ set(snap))[:4])
    res.outcomes[('Dstr', ident)] += 1
    res.nontrivial += 1
    if errs:
        res.violation(case, errs, {'file': text})
    return res


# one instruction (or two consecutive ones) that uses the SAME path symbol for a file to read and for a file to create
SAME_SHAPES = {
    'copy': ['copy {SRC} {DST}'],
    'file-contents-of': ['file {DST} = -contents-of {SRC}'],
    'dir-with-file-contents-of': ['dir {DST} = { file inner.txt = -contents-of {SRC} }'],
    'read-then-create': ['copy {SRC} -rel-tmp read-first.txt', "file {DST} = 'made'"],
    'exists-then-create-in-cleanup': ['exists {SRC}', "[cleanup]", "file {DST} = 'made'"],
}


def _dsame(res, case, w, seam):
    _, shape, base, depth, form = case
    how = ('rel', 'lead')[:depth - 1]
    defs, sfx, last = _chain_defs(base, how)
    mk = (lambda n: '-rel %s %s' % (last, n)) if form == 'rel' else (lambda n: '@[%s]@/%s' % (last, n))
    writable = base in (None,) + WRITABLE
    pre = list(defs)
    if writable:
        pre.append("file %s = 'src'" % mk('a.txt'))
    elif base in ('home', 'here'):
        w.write(sfx + '/a.txt', 'src')
    elif base == 'act-home':
        w.write('ah/' + sfx + '/a.txt', 'src')
    body = [l.replace('{SRC}', mk('a.txt')).replace('{DST}', mk('b-made')) for l in SAME_SHAPES[shape]]
    lines = list(HEAD) + pre + ['run % first']
    if '[cleanup]' in body:
        i = body.index('[cleanup]')
        lines += ['[act]', '% atc', '[assert]'] + body[:i] + body[i:]
    else:
        lines += body + ['[act]', '% atc']
    text = '\n'.join(lines) + '\n'
    snap = _home_snapshot(w)
    o, sds, ident = _run_keep(text)
    errs = []
    if writable:
        if ident != 'PASS' or not sds:
            errs.append('%s with source and destination under the same symbol (relative to %s): accepted by documentation, got %s / %s' % (
                shape, base or 'the default (cd)', ident, ' / '.join(cli.stderr_lines(o.err)[-3:])[:300]))
        else:
            want = root_dir(base or 'cd', sds, str(w.home), sds + '/act') + '/' + sfx + '/b-made'
            if not os.path.lexists(want):
                errs.append('%s: nothing at %s' % (shape, want.replace(sds, '<sds>')))
    else:
        if ident != 'VALIDATION_ERROR' or o.rc != 65:
            errs.append('%s: the symbol %s (relative to %s through %d definitions) is used for the file to create as well as for the file to read: must be rejected before execution, got %s' % (
                shape, last, base, depth, ident))
        if seam.calls or sds:
            errs.append('the case was executed (processes %s)' % [c['args'] for c in seam.calls][:2])
    if _home_snapshot(w) != snap:
        errs.append('home directory changed: %s' % sorted(set(_home_snapshot(w)) ^ set(snap))[:4])
    res.outcomes[('Dsame', writable, ident)] += 1
    res.nontrivial += 1
    if errs:
        res.violation(case, errs, {'file': text})
    return res


_HERE_DIR = {'main': '', 'sub': 'sub/', 'deep': 'sub/deeper/'}


def _rhere(res, case, w, seam):
    """`-rel-here` = the directory of the file in which the definition stands: three files in three directories, every order of the definitions,
    optionally preceded by another path definition (so that the -rel-here ones are not the first the program parses)."""
    _, order, first, phase = case
    # main includes sub/defs.xly which includes deeper/more.xly; each file defines one symbol, before or after its inclusion
    pos = {n: order.index(n) for n in order}
    d = lambda n: 'def path H_%s = -rel-here data-%s' % (n, n)
    deep = [d('deep')]
    sub = ([d('sub')] if pos['sub'] < pos['deep'] else []) + ['including deeper/more.xly'] + ([d('sub')] if pos['sub'] > pos['deep'] else [])
    before = pos['main'] < min(pos['sub'], pos['deep'])
    main_defs = ([d('main')] if before else []) + ['including sub/defs.xly'] + ([] if before else [d('main')])
    pre = []
    if first == 'tmp':
        pre = ['def path FIRST = -rel-tmp f']
    elif first == 'here':
        pre = ['including first/first.xly']
        w.write('first/first.xly', 'def path FIRST = -rel-here f\n')
    w.write('sub/defs.xly', '\n'.join(sub) + '\n')
    w.write('sub/deeper/more.xly', '\n'.join(deep) + '\n')
    use = ['run % probe @[H_main]@ @[H_sub]@ @[H_deep]@ "@[H_sub]@"']
    if phase == 'setup':
        lines = list(HEAD) + pre + main_defs + use + ['[act]', '% atc']
    else:
        lines = list(HEAD) + ['[act]', '% atc', '[assert]'] + pre + main_defs + use
    text = '\n'.join(lines) + '\n'
    o = cli.run_case(text)
    errs = []
    if o.ident != 'PASS':
        errs.append('outcome %s / %s' % (o.ident, ' / '.join(cli.stderr_lines(o.err)[-3:])[:300]))
    pc = [c for c in seam.calls if c['name'] == 'probe']
    home = str(w.home)
    want = [home + '/data-main', home + '/sub/data-sub', home + '/sub/deeper/data-deep', home + '/sub/data-sub']
    if pc:
        if pc[0]['args'][1:] != want:
            errs.append('-rel-here definitions in c.case, sub/defs.xly, sub/deeper/more.xly (order %s, first definition parsed: %s) resolve to %s, expected %s' % (
                order, first, [a.replace(home, '<home>') for a in pc[0]['args'][1:]], [a.replace(home, '<home>') for a in want]))
    elif not errs:
        errs.append('probe not run')
    res.outcomes[('Rhere', o.ident)] += 1
    res.nontrivial += 1
    if errs:
        res.violation(case, errs, {'file': text})
    return res


def _rhere_suite(res, case, w, seam):
    """The same in a suite run in one process: cases in different directories each define a -rel-here path."""
    _, first, dirs = case
    names = []
    for i, dname in enumerate(dirs):
        lines = ['[setup]']
        if i == 0 and first == 'tmp':
            lines.append('def path FIRST = -rel-tmp f')
        if i == 0 and first == 'here':
            lines.append('def path FIRST = -rel-here f')
        lines += ['def path X = -rel-here data.txt', 'run %% probe %d @[X]@' % i, '[act]', '% atc']
        rel = ('' if dname == '.' else dname + '/') + 'k%d.case' % i
        w.write(rel, '\n'.join(lines) + '\n')
        names.append(rel)
    sp = w.write('s.suite', '[cases]\n' + '\n'.join(names) + '\n')
    o = cli.run(['suite', str(sp)])
    errs = []
    if o.rc != 0:
        errs.append('suite run: exit %s / %s' % (o.rc, ' / '.join(cli.stderr_lines(o.out)[-4:])[:300]))
    home = str(w.home)
    got = {c['args'][1]: c['args'][2] for c in seam.calls if c['name'] == 'probe' and len(c['args']) > 2}
    for i, dname in enumerate(dirs):
        want = os.path.normpath(home + '/' + dname) + '/data.txt'
        if got.get(str(i)) != want:
            errs.append('case %d in directory %s: -rel-here data.txt resolves to %s, expected %s' % (i, dname, str(got.get(str(i))).replace(home, '<home>'), want.replace(home, '<home>')))
    res.outcomes[('RhereSuite', o.rc)] += 1
    res.nontrivial += 1
    if errs:
        res.violation(case, errs, {'suite': names})
    return res


# reading roles: name -> (template, accepted roots, default root, what must exist (relative name under the root), phase)
RD5 = ('home', 'act-home', 'act', 'tmp', 'cd')
SRC_ROLES = {
    'copy-src': ('copy {P} copied-here', RD5, 'home', 'file', 'setup'),
    'contents-of': ('file made.txt = -contents-of {P}', RD5, 'home', 'file', 'setup'),
    'existing-file-arg': ('run % probe -existing-file {P}', RD5, 'home', 'file', 'setup'),
    'program-path': ('run {P}', RD5, 'home', 'exe', 'setup'),
    'exists': ('exists {P} : type file', RD5, 'cd', 'file', 'assert'),
    'contents': ('contents {P} : equals <<EOF\nX\nEOF', RD5, 'cd', 'file', 'assert'),
    'dir-contents': ('dir-contents {P} : num-files == 1', ('act-home', 'act', 'tmp', 'cd'), 'cd', 'dir', 'assert'),
    'cd': ('cd {P}', WRITABLE, 'cd', 'dir', 'setup'),
}


def _src(res, case, w, seam):
    role, r = case[1], case[2]
    form = case[3] if len(case) > 3 else 'plain'
    tmpl, accepted, default, kind, phase = SRC_ROLES[role]
    eff = r or default
    name = 'only-under-%s' % eff
    opt = (OPT[r] + ' ') if r else ''
    pre = ['dir -rel-tmp cwd-dir', 'cd -rel-tmp cwd-dir']
    # put the thing under the effective root only
    if eff in ('home', 'act-home', 'here'):
        base = {'home': '', 'act-home': 'ah/', 'here': ''}[eff]
        if kind == 'dir':
            w.write(base + name + '/one.txt', 'X\n')
        else:
            p = w.write(base + name, 'X\n' if kind == 'file' else '#!/bin/sh\n')
            if kind == 'exe':
                os.chmod(p, 0o755)
    elif eff in ('act', 'tmp', 'cd', 'result'):
        where = {'act': '-rel-act', 'tmp': '-rel-tmp', 'cd': '-rel-cd', 'result': '-rel-tmp'}[eff]
        if kind == 'dir':
            pre.append("dir %s %s = { file one.txt }" % (where, name))
        elif kind == 'exe':
            p = w.write('exe-src', '#!/bin/sh\n')
            os.chmod(p, 0o755)
            pre.append('copy exe-src %s %s' % (where, name))
        else:
            pre.append("file %s %s = <<EOF\nX\nEOF" % (where, name))
    written = {'plain': name, 'bare': '@[NM]@', 'quoted': '"@[NM]@"', 'glued': '@[N1]@@[N2]@'}[form]
    instr = tmpl.replace('{P}', opt + written)
    if form != 'plain':
        pre = pre + ['def string NM = %s' % name, 'def string N1 = %s' % name[:4], "def string N2 = '%s'" % name[4:]]
        name_shown = '%s (= %s)' % (written, name)
    lines = list(HEAD) + pre
    if phase == 'setup':
        lines += [instr, '[act]', '% atc']
    else:
        lines += ['[act]', '% atc', '[assert]', instr]
    text = '\n'.join(lines) + '\n'
    o = cli.run_case(text)
    errs = []
    ok = (r is None) or (r in accepted)
    if ok:
        if o.ident != 'PASS':
            errs.append('%s %s%s: the file exists only under the documented root (%s): expected PASS, got %s / %s' % (
                role, opt, name, eff, o.ident, ' / '.join(cli.stderr_lines(o.err)[-3:])[:300]))
        if role == 'existing-file-arg':
            pc = [c for c in seam.calls if c['name'] == 'probe']
            sds = _sds_of(seam.calls) or ''
            want = root_dir(eff, sds, str(w.home), sds + '/tmp/cwd-dir') + '/' + name
            if pc and pc[0]['args'][1:] != [want]:
                errs.append('-existing-file %s%s gives %s, expected %s' % (opt, name, pc[0]['args'][1:], want))
        if role == 'program-path':
            pc = [c for c in seam.calls if c['name'] == name]
            sds = _sds_of(seam.calls) or ''
            want = root_dir(eff, sds, str(w.home), sds + '/tmp/cwd-dir') + '/' + name
            if not pc or pc[0]['args'][0] != want:
                errs.append('run %s%s started %s, expected %s' % (opt, name, [c['args'] for c in seam.calls][-1:], want))
    else:
        # not listed for this reading role: a syntax error, or (more liberal than documented) resolved under that option's root
        if not ((o.ident == 'SYNTAX_ERROR' and o.rc == 65) or o.ident == 'PASS'):
            errs.append('%s with %s (not among the listed relativities %s): expected SYNTAX_ERROR or resolution under that root, got %s' % (role, opt, accepted, o.ident))
    res.outcomes[('S', role, ok, o.ident)] += 1
    res.nontrivial += 1 if r else 0
    if errs:
        res.violation(case, errs, {'file': text})
    return res
