"""C05 — text assertions and transformers mean what the manual says (DESIGN §3 C05).

Bulk: S-LIB (real parsers -> primitives) over every text of the bound x every expression of the families.
Slice: the same expressions as test-case files through the real CLI (contents / stdout / file ... -transformed-by).
Oracle: mc/ref/text.py (written from the manual).
"""
import itertools

from mc import world, procseam, cli, lib
from mc.ref import text as R
from mc.result import Result

PROPERTY = 'C05'
LEVEL = 'exploration'
CASE_GUARD_S = {'quick': 300, 'thorough': 3600}  # a case is a composite (a block of expressions x all texts, ...)
CHUNK = 4
RULE = {
    'quick': 'every text of length <= 4 over {a,B,space,newline,.,e-acute} (1555) plus boundary texts for the equals read-ahead and buffer '
             'sizes, x every expression of the matcher / transformer families (see families() in checks/c05.py), each evaluated on a '
             'string-backed, a file-backed and an identity-wrapped file-backed model; plus a CLI slice (contents / stdout / file '
             '-transformed-by) over all expressions x 24 texts; non-trivial: transformer output differs from its input, or matcher '
             'verdict differs from its verdict on the empty text; pairs are distinct by construction',
}
RULE['thorough'] = RULE['quick'].replace('every text of length <= 4 over {a,B,space,newline,.,e-acute} (1555)', 'every text of length <= 6 over {a,B,space,newline,.} and of length <= 5 with e-acute added (24956)')
ASSUMPTIONS = [
    'REGEX and replacement strings have Python semantics (the manual defines them by reference to Python re)',
    'characters that str.splitlines treats as line breaks (\\r, \\f, ...) belong to C14 and are not in this alphabet',
]

SIGMA = 'aB \n.\u00e9'


def texts(tier):
    if tier == 'quick':
        return [''.join(t) for k in range(0, 5) for t in itertools.product(SIGMA, repeat=k)]
    # thorough: length <= 6 over the ASCII part, length <= 5 over the whole alphabet
    ts = [''.join(t) for k in range(0, 7) for t in itertools.product(SIGMA[:5], repeat=k)]
    seen = set(ts)
    for k in range(0, 6):
        for t in itertools.product(SIGMA, repeat=k):
            s_ = ''.join(t)
            if s_ not in seen:
                seen.add(s_)
                ts.append(s_)
    return ts


BOUNDARY = (['x' * k for k in (99, 100, 101, 102, 8191, 8192, 8193)] +
            ['ab\n' * k for k in (33, 34, 2730, 2731, 21846)] +
            ['E' + 't' * k for k in (98, 99, 100, 101)] +
            ['E\n' + 'l\n' * k for k in (49, 50, 51)] +
            ['a' * 65535, 'a' * 65536 + '\n', ('B' * 70 + '\n') * 1000])
SLICE_TEXTS = ['', 'a', 'a\n', '\n', ' ', 'aB', 'a\nB', 'a\nB\n', '\n\n', ' a \n', 'a.B', '.', '..\n', 'B\na\n', 'aa\nBB\n\n',
               'a \n b\n', '\na', 'a\n\nB', 'aB\naB\naB\n', ' \n ', 'B', 'Ba', 'a\n.\nB\n', '  a']

# -------------------------------------------------------------------------------------------------
# families
# -------------------------------------------------------------------------------------------------

RX_REPL = ['a', '.', 'a*', '^', '$', 'B$', '^a', r'\s', r'\n', '(a)(B)', ' ', 'x*', r'\.', 'a|B', '[^a]', r'a\Z']
REPLS = ['', 'x', r'\n', r'\1', 'x\\ny', r'\\', 'aa']
RX_MATCH = ['a', '.', 'a*', '^a', 'a$', '^$', 'a|B', r'\s', '(a)(B)', r'\.', r'\(', 'b', r'a\nB', '^.$', r'\n$', '',
            # a full match exists, but the FIRST match at position 0 is a proper prefix (alternation order, non-greedy): fullmatch must backtrack
            'a|aB', 'a*?', '.*?', 'a??B?', r'(a|aB)(\n)?']

LM_SIMPLE = [('contents', ('empty',)), ('contents', ('matches', False, False, 'a')), ('contents', ('matches', True, False, 'a')),
             ('contents', ('equals', 'str', 'a')), ('contents', ('equals', 'str', '')), ('contents', ('matches', False, True, 'b')),
             ('line-num', ('cmp', '==', 1)), ('line-num', ('cmp', '>=', 2)), ('line-num', ('cmp', '<', 2)), ('line-num', ('cmp', '!=', 2)),
             ('line-num', ('cmp', '<=', 0)), ('line-num', ('cmp', '>', 3)),
             ('const', True), ('const', False), ('not', ('contents', ('empty',))),
             ('and', [('line-num', ('cmp', '>=', 2)), ('contents', ('matches', False, False, 'a'))]),
             ('or', [('line-num', ('cmp', '==', 1)), ('contents', ('empty',))]),
             ('contents', ('num-lines', ('cmp', '==', 1))), ('contents', ('num-lines', ('cmp', '==', 0))),
             ('contents', ('matches', True, False, 'a|aB')), ('contents', ('matches', True, True, 'b??.*?'))]


def transformers(tier):
    out = []
    for rx in RX_REPL:
        for rep in REPLS:
            if rep == r'\1' and '(' not in rx:
                continue
            for pres in (False, True):
                out.append(('replace', rx, rep, pres, None))
    for at in LM_SIMPLE[:13]:
        for rx, rep in (('a', 'x'), (r'\n', ''), ('^', '>'), ('.', '')):
            for pres in (False, True):
                out.append(('replace', rx, rep, pres, at))
    out += [('strip', None), ('strip', 'space'), ('strip', 'new-lines'), ('case', 'upper'), ('case', 'lower'), ('identity',)]
    # line-number ranges (C13 explores them in depth): single, several, and head / tail ranges that overlap, touch or leave a gap
    for rs in ([('l', 2)], [('u', 2)], [('p', 1), ('p', -1)], [('u', 2), ('l', -2)], [('u', 1), ('f', 3, 4), ('l', -1)], [('u', -3), ('l', -2)], [('u', 1), ('l', 2)],
               [('u', 2), ('l', 3)], [('l', 3), ('u', 1)], [('u', 1), ('l', 3)], [('f', 2, 3), ('p', 2)], [('l', 3), ('p', 4)], [('l', -2), ('p', 1)]):
        out.append(('line-nums', rs))
    for rx in ('a', 'B$', '^$', '.', r'\s', 'a|B', '', 'a|aB', '.*?'):
        out += [('grep', False, rx), ('grep', True, rx)]
    for lm in LM_SIMPLE:
        out.append(('filter', lm))
    chain = [('replace', 'a', 'x', False, None), ('replace', 'x*', '-', True, None), ('strip', None), ('case', 'upper'),
             ('filter', ('line-num', ('cmp', '==', 1))), ('grep', False, 'B'), ('strip', 'new-lines'), ('replace', r'\n', '', False, None),
             ('replace', '$', r'\n', False, None), ('filter', ('contents', ('empty',))), ('identity',)]
    for a in chain:
        for b in chain:
            out.append(('seq', [a, b]))
    # nested compositions (parenthesised, as a `def` gives them): ( ( a | b ) | c ), ( a | ( b | c ) ), also with identity as a member of the inner one
    nest = [('identity',), ('case', 'upper'), ('replace', 'a', 'x', False, None), ('strip', None), ('filter', ('line-num', ('cmp', '==', 1)))]
    for a in nest:
        for b in nest:
            for c in nest[1:]:
                out.append(('seq', [('seq', [a, b]), c]))
                out.append(('seq', [c, ('seq', [a, b])]))
    out.append(('seq', [('strip', None), ('seq', [('replace', 'B', '_', False, None), ('seq', [('case', 'upper'), ('identity',)])])]))
    out.append(('seq', [('seq', [('identity',), ('identity',)]), ('case', 'lower')]))
    if tier == 'thorough':
        for a in chain[:7]:
            for b in chain[:7]:
                for c in chain[:7]:
                    out.append(('seq', [a, b, c]))
    return out


def matchers(tier):
    out = [('empty',)]
    for s in ('', 'a', 'a\n', 'aB', 'a\nB\n', ' ', '\n', 'a.B'):
        for kind in ('str', 'here', 'file', 'file-id'):
            if kind == 'str' and '\n' in s:
                continue
            if kind == 'here' and not (s.endswith('\n') or s == ''):
                continue
            out.append(('equals', kind, s))
    for rx in RX_MATCH:
        for full in (False, True):
            for ic in (False, True):
                out.append(('matches', full, ic, rx))
    for op in R.OPS:
        for n in range(0, 4):
            out.append(('num-lines', ('cmp', op, n)))
    out.append(('num-lines', ('or', [('cmp', '==', 0), ('cmp', '>', 2)])))
    out.append(('num-lines', ('not', ('cmp', '==', 1))))
    for lm in LM_SIMPLE:
        out += [('every', lm), ('any', lm)]
    trs = [('strip', None), ('case', 'lower'), ('filter', ('contents', ('matches', False, False, 'a'))), ('replace', r'\n', '', False, None),
           ('replace', 'a', '', True, None), ('grep', False, 'B'), ('identity',), ('seq', [('strip', 'space'), ('case', 'upper')]),
           ('strip', 'new-lines'), ('filter', ('line-num', ('cmp', '==', 2)))]
    ms = [('empty',), ('equals', 'str', 'a'), ('equals', 'file', 'a\n'), ('matches', True, False, 'a*'), ('num-lines', ('cmp', '==', 1)),
          ('every', ('contents', ('matches', False, False, 'a'))), ('any', ('line-num', ('cmp', '==', 2))), ('equals', 'str', 'AB')]
    for t in trs:
        for m in ms:
            out.append(('transformed', t, m))
    out.append(('transformed', ('case', 'upper'), ('transformed', ('replace', 'A', 'b', False, None), ('equals', 'str', 'bB'))))
    leaves = [('empty',), ('matches', False, False, 'a'), ('num-lines', ('cmp', '>=', 2)), ('every', ('contents', ('matches', False, False, 'B'))),
              ('any', ('contents', ('empty',))), ('equals', 'str', 'a'), ('const', True), ('const', False)]
    for a in leaves:
        out.append(('not', a))
        for b in leaves:
            out += [('and', [a, b]), ('or', [a, b])]
    if tier == 'thorough':
        for a in leaves[:6]:
            for b in leaves[:6]:
                for c in leaves[:6]:
                    out += [('or', [('and', [a, b]), c]), ('and', [('or', [a, b]), ('not', c)]), ('not', ('or', [a, ('and', [b, c])]))]
    return out


SELF_DELTAS = ('same', 'append-a', 'drop-last', 'append-nl', 'prepend-space', 'flip-case-last')


def delta(t, d):
    if d == 'same':
        return t
    if d == 'append-a':
        return t + 'a'
    if d == 'drop-last':
        return t[:-1]
    if d == 'append-nl':
        return t + '\n'
    if d == 'prepend-space':
        return ' ' + t
    return t[:-1] + t[-1:].swapcase()


_T = {}


def prepare(tier):
    cli.main_program()
    procseam.install()
    lib.parsers('text-matcher')
    lib.parsers('text-transformer')
    _T['texts'] = texts(tier)
    _T['tt'] = transformers(tier)
    _T['tm'] = matchers(tier)


def cases(tier):
    ntt, ntm = len(transformers(tier)), len(matchers(tier))
    B = 8
    for i in range(0, ntt, B):
        yield ('tt', i, min(i + B, ntt))
    for i in range(0, ntm, B):
        yield ('tm', i, min(i + B, ntm))
    nt = len(texts(tier))
    for i in range(0, nt, 100):
        yield ('self', i, min(i + 100, nt))
    yield ('boundary', 0, 0)
    for k in range(len(SLICE_TEXTS)):
        yield ('cli-tm', k, 0)
        yield ('cli-tt', k, 0)
    # replay granularity
    return


def _models(E, t, fname='model.txt'):
    p = E.write_act(fname, t)
    ident = _T.get('ident')
    if ident is None:
        ident = _T['ident'] = E.primitive(lib.parsers('text-transformer').full, 'identity')
    return (('str', E.model_str(t)), ('file', E.model_file(p)), ('file-id', ident.transform(E.model_file(p))))


def _write_ctx(E, ctx):
    for name, s in ctx.files.items():
        E.write_act(name, s)


def run(case) -> Result:
    res = Result()
    kind = case[0]
    if kind == 'one':  # replay granularity: ('one', 'tt'|'tm', ast, text)
        return _run_exprs(res, case[1], [case[2]], [case[3]], case)
    if kind in ('tt', 'tm'):
        exprs = _T[kind][case[1]:case[2]]
        return _run_exprs(res, kind, exprs, _T['texts'], case)
    if kind == 'self':
        return _run_self(res, _T['texts'][case[1]:case[2]])
    if kind == 'self-one':
        return _run_self(res, [case[1]])
    if kind == 'boundary':
        return _run_boundary(res)
    if kind in ('cli-tm', 'cli-tt'):
        return _run_cli(res, kind, SLICE_TEXTS[case[1]], case)
    raise ValueError(case)


def _run_exprs(res, kind, exprs, txts, case):
    E = lib.env()
    for ast in exprs:
        ctx = R.Ctx()
        src = R.render_tt(ast, ctx) if kind == 'tt' else R.render_tm(ast, ctx)
        _write_ctx(E, ctx)
        try:
            prim = E.primitive(lib.parsers('text-transformer' if kind == 'tt' else 'text-matcher').full, src)
        except Exception as ex:  # noqa
            res.n += 1
            res.violation(('one', kind, ast, ''), ['expression %r rejected: %s: %s' % (src, type(ex).__name__, ex)])
            continue
        triv = None if kind == 'tt' else R.ev_tm(ast, '')
        for t in txts:
            exp = R.ev_tt(ast, t) if kind == 'tt' else R.ev_tm(ast, t)
            E.new_space()
            for mk, model in _models(E, t):
                res.n += 1
                try:
                    got = prim.transform(model).contents().as_str if kind == 'tt' else prim.matches_w_trace(model).value
                except Exception as ex:  # noqa
                    got = 'EXC %s: %s' % (type(ex).__name__, ex)
                if got != exp:
                    res.violation(('one', kind, ast, t), ['%s on %r (%s model): got %r, manual says %r' % (src, t, mk, got, exp)])
                res.outcomes[(kind, exp if kind == 'tm' else (exp == t))] += 1
            if (kind == 'tt' and exp != t) or (kind == 'tm' and exp != triv):
                res.nontrivial += 1
    if not res.samples:
        res.samples.append({'kind': kind, 'expression': src, 'text': txts[-1], 'expected': exp})
    return res


def _run_self(res, txts):
    """equals <the text itself / a one-character variant>, with every kind of expected-text source."""
    E = lib.env()
    P = lib.parsers('text-matcher').full
    for t in txts:
        for d in SELF_DELTAS:
            s = delta(t, d)
            for skind in ('str', 'here', 'file', 'file-id'):
                if skind == 'str' and '\n' in s:
                    continue
                if skind == 'here' and not (s.endswith('\n') or s == ''):
                    continue
                ctx = R.Ctx()
                ast = ('equals', skind, s)
                src = R.render_tm(ast, ctx)
                _write_ctx(E, ctx)
                E.new_space()
                try:
                    prim = E.primitive(P, src)
                except Exception as ex:  # noqa
                    res.n += 1
                    res.violation(('self-one', t), ['%r rejected: %s' % (src, ex)])
                    continue
                exp = (s == t)
                for mk, model in _models(E, t):
                    res.n += 1
                    try:
                        got = prim.matches_w_trace(model).value
                    except Exception as ex:  # noqa
                        got = 'EXC %s: %s' % (type(ex).__name__, ex)
                    if got != exp:
                        res.violation(('self-one', t), ['equals %r (%s) on %r (%s model): got %r, expected %r' % (s, skind, t, mk, got, exp)])
                    res.outcomes[('self', exp)] += 1
                if not exp:
                    res.nontrivial += 1
    return res


def _run_boundary(res):
    E = lib.env()
    P = lib.parsers('text-matcher').full
    PT = lib.parsers('text-transformer').full
    for t in BOUNDARY:
        variants = [t, t + 'x', t[:-1], t + '\n', t[:-1] + 'y', t[:50] + 'z' + t[51:], 'E', t[:100], t[:101]]
        for s in variants:
            for skind in ('file', 'file-id', 'str', 'here'):
                if skind == 'str' and ('\n' in s or len(s) > 9000):
                    continue
                if skind == 'here' and not (s.endswith('\n') or s == ''):
                    continue
                ctx = R.Ctx()
                src = R.render_tm(('equals', skind, s), ctx)
                _write_ctx(E, ctx)
                E.new_space()
                prim = E.primitive(P, src)
                for mk, model in _models(E, t):
                    res.n += 1
                    got = prim.matches_w_trace(model).value
                    if got != (s == t):
                        res.violation(('boundary', 0, 0), ['equals (%s, %d chars) on text of %d chars (%s model): got %r, expected %r'
                                                           % (skind, len(s), len(t), mk, got, s == t)])
                    res.outcomes[('boundary', s == t)] += 1
                res.nontrivial += 1
        for ast in (('replace', 'x', 'yy', False, None), ('strip', None), ('filter', ('line-num', ('cmp', '>=', 2))), ('case', 'upper'),
                    ('seq', [('replace', 'a', 'A', True, None), ('filter', ('contents', ('matches', False, False, 'A')))]),
                    ('line-nums', [('l', -2)])):
            prim = E.primitive(PT, R.render_tt(ast))
            exp = R.ev_tt(ast, t)
            E.new_space()
            for mk, model in _models(E, t):
                res.n += 1
                got = prim.transform(model).contents().as_str
                if got != exp:
                    res.violation(('boundary', 0, 0), ['%s on text of %d chars (%s model): wrong output (%d vs %d chars)'
                                                       % (R.render_tt(ast), len(t), mk, len(got), len(exp))])
            res.nontrivial += 1
    return res


def _run_cli(res, kind, t, case):
    """The same expressions as test-case files.  Every assertion is written in the polarity in which it must pass."""
    w = world.get()
    seam = procseam.SEAM
    exprs = _T['tt' if kind == 'cli-tt' else 'tm']
    B = 40
    for i in range(0, len(exprs), B):
        w.reset()
        seam.reset()
        seam.script['atc'] = {'out': t}
        w.write('model.txt', t)
        lines_ = ['[setup]', 'copy model.txt', '[act]', '% atc', '[assert]']
        setup_extra = []
        ctx = R.Ctx()
        n_assert = 0
        for j, ast in enumerate(exprs[i:i + B]):
            if kind == 'cli-tm':
                if ast[0] == 'equals' and ast[1] == 'here':
                    continue
                src = R.render_tm(ast, ctx, simple=True)
                exp = R.ev_tm(ast, t)
                pol = '' if exp else '! '
                if j % 2 == 0:
                    lines_.append('contents model.txt : %s%s' % (pol, src))
                else:
                    lines_.append('stdout %s%s' % (pol, src))
            else:
                src = R.render_tt(ast, ctx, simple=True)
                exp = R.ev_tt(ast, t)
                name = ctx.file_for(exp)
                if j % 2 == 0 or '-line-nums' in src:  # (LINE-NUMBER-RANGEs extend to the end of the line: nothing may follow them on it)
                    setup_extra.append('file out%d.txt = -contents-of -rel-act model.txt -transformed-by %s' % (j, src))
                    lines_.append('contents out%d.txt : equals -contents-of -rel-act %s' % (j, name))
                else:
                    lines_.append('stdout -transformed-by %s equals -contents-of -rel-act %s' % (src, name))
            n_assert += 1
        for name, s in ctx.files.items():
            w.write(name, s)
            setup_extra.insert(0, 'copy %s' % name)
        text = '\n'.join(lines_[:2] + setup_extra + lines_[2:]) + '\n'
        o = cli.run_case(text)
        res.n += n_assert
        res.outcomes[(kind, o.ident)] += 1
        if o.rc != 0 or o.out != 'PASS\n' or o.exc:
            res.violation(case, ['CLI slice (text %r, expressions %d..%d): expected PASS, got rc=%s %s' % (t, i, i + B, o.rc, o.out.strip()),
                                 ' / '.join(cli.stderr_lines(o.err)[:8])], {'file': text})
    res.nontrivial += 1
    return res
