"""C06 — expression grammar: precedence, associativity, parentheses, layout, laziness (DESIGN §3 C06).

Every expression is put into a test case as `def TYPE Mi = EXPR` (the full parser of the host type) and
asserted in the polarity the generating tree gives, batched; `run % NAME` leaves with unique names make the
order of evaluation (lazy, left to right) observable in the process-seam call log.
Malformed family: every single-token deletion / duplication / transposition of each rendering of the small
trees, classified by a reference recursive-descent parser of the documented grammar.
"""
import itertools

from mc import world, procseam, cli
from mc.result import Result

PROPERTY = 'C06'
LEVEL = 'exploration'
CASE_GUARD_S = {'quick': 300, 'thorough': 3600}  # a case is a composite (a block of expressions x all texts, ...)
CHUNK = 6
RULE = ('trees: leaves x { !, &&, || with 2 or 3 operands } to depth 2 (binary at depth 2; thorough: 4 leaves and ternary/3-level spot family) for each of the '
        '6 host types (integer, line, text, file, files matcher; text transformer with | chains); renderings: minimal parentheses, full parentheses, '
        'redundant pairs (every placement of one and two pairs on the depth-1 trees), layouts (single / double blanks, line break after each infix operator, inside parentheses also before each operator of a one-kind chain, '
        'after !, after ( and before ) ); simple-expression contexts (every/any line, num-lines, -transformed-by, contents, line-num, -selection, '
        '-with-pruned, every/any file, num-files, dir-contents, replace -at, filter) followed by an outer infix operator; malformed family = every '
        'single-token deletion, duplication and adjacent transposition of the renderings of the depth-1 trees, plus dangling / doubled operators of every mix of && and || '
        '(bare, parenthesised, unbalanced), each also laid out with a line break before every infix operator; half operators (`&`, `|`); quoted operators and parentheses (hard and soft quotes); superfluous text after a complete expression in the hosting assertion; a line that starts with an infix operator after a complete expression outside parentheses (6 expressions x {&&, ||} x {definition, assertion}); '
        'non-trivial = tree with at least one operator (value depends on structure) ; renderings of one tree are counted once')
ASSUMPTIONS = [
    'a line break *before* an infix operator is must-accept only inside parentheses and for a chain of one operator kind (as the project\'s own parser tests '
    'require); elsewhere it is not in the must-accept set (the manual is silent; the unchanged program rejects e.g. `( a || b <NL> && c )`)',
    'program arguments extend to the end of line or `)`: run-leaves are always written inside parentheses',
]

HOSTS = ('integer', 'line', 'text', 'file', 'files', 'transformer')
TYPE = {'integer': 'integer-matcher', 'line': 'line-matcher', 'text': 'text-matcher', 'file': 'file-matcher',
        'files': 'files-matcher', 'transformer': 'text-transformer'}

# leaves per host: (tokens, truth, is-run-leaf)
LEAVES = {
    'integer': [(['==', '1'], True, False), (['>', '5'], False, False), (['constant', 'true'], True, False), (['<=', '0'], False, False)],
    'line': [(['line-num', '==', '1'], True, False), (['contents', 'is-empty'], False, False), (['constant', 'false'], False, False),
             (['contents', 'matches', 'x'], True, False)],
    'text': [(['(', 'run', '%', 'T', ')'], True, True), (['(', 'run', '%', 'F', ')'], False, True), (['is-empty'], False, False),
             (['constant', 'true'], True, False)],
    'file': [(['(', 'run', '%', 'T', ')'], True, True), (['(', 'run', '%', 'F', ')'], False, True), (['type', 'file'], True, False),
             (['name', 'nomatch'], False, False)],
    'files': [(['num-files', '==', '2'], True, False), (['is-empty'], False, False), (['constant', 'true'], True, False),
              (['num-files', '>', '2'], False, False)],
}
# model: exit code 1; line 1 = 'x'; file f.txt = 'x\n'; dir d with 2 files
ASSERT = {
    'integer': 'exit-code %s',
    'line': 'contents f.txt : every line : %s',
    'text': 'contents f.txt : %s',
    'file': 'exists f.txt : %s',
    'files': 'dir-contents d : %s',
}
# transformer host: chains of non-commuting steps on the text 'a'
TSTEPS = [(['replace', 'a', 'b'], lambda s: s.replace('a', 'b')), (['replace', 'b', 'ca'], lambda s: s.replace('b', 'ca')),
          (['char-case', '-to-upper'], lambda s: s.upper()), (['replace', 'A', 'ab'], lambda s: s.replace('A', 'ab')), (['identity'], lambda s: s)]


# --------------------------------------------------------------------------------------------
# trees
# --------------------------------------------------------------------------------------------

def d1_trees(nleaves):
    L = [('L', i) for i in range(nleaves)]
    out = list(L)
    out += [('not', x) for x in L]
    for op in ('and', 'or'):
        out += [(op, [a, b]) for a in L for b in L]
        out += [(op, [a, b, c]) for a in L for b in L for c in L]
    return out


def d2_trees(nleaves):
    d1 = d1_trees(nleaves)
    out = list(d1)
    out += [('not', x) for x in d1 if x[0] != 'L']
    for op in ('and', 'or'):
        for a in d1:
            for b in d1:
                if a[0] == 'L' and b[0] == 'L':
                    continue
                out.append((op, [a, b]))
    return out


def d3_family(nleaves):
    """thorough: 3-level spot family — every shape of nesting two different binary operators twice, with negations."""
    L = [('L', i) for i in range(min(nleaves, 3))]
    out = []
    ops = ('and', 'or')
    for o1, o2, o3 in itertools.product(ops, repeat=3):
        for a, b, c, d in itertools.product(L, repeat=4):
            out.append((o1, [(o2, [a, (o3, [b, c])]), d]))
            out.append((o1, [a, (o2, [(o3, [b, c]), d])]))
            out.append((o1, [('not', (o2, [a, b])), (o3, [c, ('not', d)])]))
    return out


def number(tree, counter=None):
    """Give every leaf occurrence its position (left to right): ('L', i) -> ('L', i, occ)."""
    counter = counter if counter is not None else [0]
    k = tree[0]
    if k == 'L':
        counter[0] += 1
        return ('L', tree[1], counter[0])
    if k == 'not':
        return ('not', number(tree[1], counter))
    return (k, [number(x, counter) for x in tree[1]])


def ev(tree, leaves):
    """-> (value, [names of the run-leaves evaluated, in order]); leaves(i, occ) -> (tokens, truth, is_run, unique name)"""
    k = tree[0]
    if k == 'L':
        tok, truth, is_run, name = leaves(tree[1], tree[2] if len(tree) > 2 else 0)
        return truth, ([name] if is_run else [])
    if k == 'not':
        v, t = ev(tree[1], leaves)
        return (not v), t
    trace = []
    if k == 'and':
        for x in tree[1]:
            v, t = ev(x, leaves)
            trace += t
            if not v:
                return False, trace
        return True, trace
    for x in tree[1]:
        v, t = ev(x, leaves)
        trace += t
        if v:
            return True, trace
    return False, trace


PREC = {'or': 1, 'and': 2, 'not': 3, 'L': 4}


def tokens(tree, leaf_tokens, style='min', counter=None):
    """Token list.  style: 'min' minimal parentheses; 'full' every composite operand parenthesised."""
    k = tree[0]
    if k == 'L':
        return list(leaf_tokens(tree[1], tree[2] if len(tree) > 2 else 0))
    if k == 'not':
        inner = tokens(tree[1], leaf_tokens, style, counter)
        if tree[1][0] in ('and', 'or') or (style == 'full' and tree[1][0] != 'L'):
            inner = ['('] + inner + [')']
        return ['!'] + inner
    op = '&&' if k == 'and' else '||'
    out = []
    for i, x in enumerate(tree[1]):
        t = tokens(x, leaf_tokens, style, counter)
        need = PREC[x[0]] <= PREC[k] if x[0] in ('and', 'or') else False
        if need or (style == 'full' and x[0] != 'L'):
            t = ['('] + t + [')']
        if i:
            out.append(op)
        out += t
    return out


def layout(toks, how):
    """Join tokens.  Line breaks only at must-accept points."""
    out = []
    depth = 0
    for i, t in enumerate(toks):
        out.append(t)
        if i == len(toks) - 1:
            break
        nxt = toks[i + 1]
        sep = ' '
        if how == 'double':
            sep = '  '
        elif how == 'nl-after-op' and t in ('&&', '||'):
            sep = '\n  '
        elif how == 'nl-after-not' and t == '!':
            sep = '\n'
        elif how == 'nl-parens' and (t == '(' or nxt == ')'):
            sep = '\n '
        elif how == 'all' and (t in ('&&', '||', '!', '(') or nxt == ')'):
            sep = ' \n   '
        elif how == 'nl-before-op' and nxt in ('&&', '||'):
            sep = '\n  '
        out.append(sep)
    return ''.join(out)


LAYOUTS = ('single', 'double', 'nl-after-op', 'nl-after-not', 'nl-parens', 'all')


def redundant(toks_of_subtree_spans, toks, k):
    pass


# --------------------------------------------------------------------------------------------
# reference parser for the malformed family (tokens -> tree | None)
# --------------------------------------------------------------------------------------------

class SUB:
    def __init__(self, host, model):
        self.host, self.model = host, model


# grammar of the malformed family: host -> [(pattern, value(model, sub-values))]; a pattern item is a token or a SUB
# (a "simple" expression of another type: no infix operator outside parentheses)
GR = {
    'integer': [(['==', '1'], lambda m, s: m == 1), (['==', '2'], lambda m, s: m == 2), (['>', '5'], lambda m, s: m > 5), (['<=', '0'], lambda m, s: m <= 0),
                (['constant', 'true'], lambda m, s: True), (['constant', 'false'], lambda m, s: False)],
    'text': [(['is-empty'], lambda m, s: m == ''), (['constant', 'true'], lambda m, s: True), (['constant', 'false'], lambda m, s: False),
             (['num-lines', SUB('integer', 1)], lambda m, s: s[0])],
    'line': [(['line-num', SUB('integer', 1)], lambda m, s: s[0]), (['contents', SUB('text', 'x')], lambda m, s: s[0]),
             (['constant', 'true'], lambda m, s: True), (['constant', 'false'], lambda m, s: False)],
    'file': [(['type', 'file'], lambda m, s: True), (['name', 'nomatch'], lambda m, s: False), (['constant', 'true'], lambda m, s: True),
             (['constant', 'false'], lambda m, s: False), (['contents', SUB('text', 'x\n')], lambda m, s: s[0])],
    'files': [(['is-empty'], lambda m, s: False), (['num-files', SUB('integer', 2)], lambda m, s: s[0]),
              (['constant', 'true'], lambda m, s: True), (['constant', 'false'], lambda m, s: False)],
}
MODEL = {'integer': 1, 'text': 'x\n', 'line': (1, 'x'), 'file': 'f.txt', 'files': 'd'}


def ref_parse(toks, host):
    """Recursive descent over whitespace-separated tokens of the documented grammar:
         expr := conj ('||' conj)* ; conj := unary ('&&' unary)* ; unary := '!' unary | '(' expr ')' | leaf
       Returns a tree or None if the token list is not an expression."""
    pos = [0]

    def peek():
        return toks[pos[0]] if pos[0] < len(toks) else None

    def expr(h):
        first = conj(h)
        if first is None:
            return None
        ops = [first]
        while peek() == '||':
            pos[0] += 1
            nxt = conj(h)
            if nxt is None:
                return None
            ops.append(nxt)
        return first if len(ops) == 1 else ('or', ops)

    def conj(h):
        first = unary(h)
        if first is None:
            return None
        ops = [first]
        while peek() == '&&':
            pos[0] += 1
            nxt = unary(h)
            if nxt is None:
                return None
            ops.append(nxt)
        return first if len(ops) == 1 else ('and', ops)

    def unary(h):
        t = peek()
        if t == '!':
            pos[0] += 1
            x = unary(h)
            return None if x is None else ('not', x)
        if t == '(':
            pos[0] += 1
            x = expr(h)
            if x is None or peek() != ')':
                return None
            pos[0] += 1
            return x
        for i, (pat, _) in enumerate(GR[h]):
            save = pos[0]
            subs = []
            ok = True
            for item in pat:
                if isinstance(item, SUB):
                    x = unary(item.host)
                    if x is None:
                        ok = False
                        break
                    subs.append(x)
                elif peek() == item:
                    pos[0] += 1
                else:
                    ok = False
                    break
            if ok:
                return ('G', h, i, subs)
            pos[0] = save
        return None

    t = expr(host)
    if t is None or pos[0] != len(toks):
        return None
    return t


def ref_eval(tree, model):
    k = tree[0]
    if k == 'G':
        _, h, i, subs = tree
        pat, fn = GR[h][i]
        submodels = [it.model for it in pat if isinstance(it, SUB)]
        return fn(model, [ref_eval(x, sm) for x, sm in zip(subs, submodels)])
    if k == 'not':
        return not ref_eval(tree[1], model)
    if k == 'and':
        return all(ref_eval(x, model) for x in tree[1])
    return any(ref_eval(x, model) for x in tree[1])


# --------------------------------------------------------------------------------------------
# cases
# --------------------------------------------------------------------------------------------

BATCH = 60
_T = {}


def prepare(tier):
    cli.main_program()
    procseam.install()
    n = 3 if tier == 'quick' else 4
    _T['n'] = n
    _T['d2'] = d2_trees(n)
    _T['d1'] = d1_trees(n)
    _T['d3'] = d3_family(n) if tier == 'thorough' else []
    _T['tier'] = tier


def cases(tier):
    n = 3 if tier == 'quick' else 4
    nd2 = len(d2_trees(n))
    styles = [('min', 'single'), ('full', 'all'), ('min', 'nl-after-op'), ('full', 'double')]
    if tier == 'thorough':
        styles += [('min', 'nl-parens'), ('min', 'nl-after-not'), ('min', 'all'), ('full', 'single')]
    for host in HOSTS:
        if host == 'transformer':
            continue
        for st in styles:
            for i in range(0, nd2, 600):
                yield ('trees', host, 'd2', st[0], st[1], i, min(i + 600, nd2))
        if tier == 'thorough':
            nd3 = len(d3_family(n))
            for st in styles[:4]:
                for i in range(0, nd3, 600):
                    yield ('trees', host, 'd3', st[0], st[1], i, min(i + 600, nd3))
        yield ('redundant', host)
        yield ('layouts-d1', host)
        nd1 = len(d1_trees(3))
        for i in range(0, nd1, 12):
            yield ('malformed', host, i, min(i + 12, nd1))
        yield ('malformed', host, -1, -1)  # dangling / doubled operators of mixed kinds
        yield ('tail', host)
        yield ('nl-before-op', host)
        yield ('op-starts-line', host)
    yield ('transformer', 0)
    for i in range(len(CONTEXTS)):
        yield ('context', i)


# -- leaf access ------------------------------------------------------------------------------

def leaf_fns(host, idx):
    """Unique run-leaf names per (expression idx, leaf occurrence)."""
    L = LEAVES[host]

    def leaf_tokens(i, occ):
        tok, truth, is_run = L[i]
        if is_run:
            return [t if t not in ('T', 'F') else '%s%dx%d' % (t.lower(), idx, occ) for t in tok]
        return tok

    def leaves_for_eval(counter):
        def f(i, occ):
            tok, truth, is_run = L[i]
            name = '%s%dx%d' % ('t' if truth else 'f', idx, occ) if is_run else None
            return tok, truth, is_run, name

        return f

    return leaf_tokens, leaves_for_eval


def _setup_world(w, seam):
    w.reset()
    seam.reset()
    seam.script['atc'] = {'exit': 1}
    seam.default = lambda rec: {'exit': 0 if rec['name'].startswith('t') else 1}
    w.write('f.txt', 'x\n')
    w.write('d/one.txt', '1')
    w.write('d/two.txt', '2')


HEAD = ['[conf]', 'act-home = .', '[setup]', 'copy f.txt', 'copy d', '[act]', '% atc', '[assert]']


def run_batch(res, host, items, case):
    """items: [(idx, source text of EXPR, expected value, expected run-leaf trace or None)].  One test case; must PASS."""
    w = world.get()
    seam = procseam.SEAM
    _setup_world(w, seam)
    defs, asserts = [], []
    for idx, src, val, trace in items:
        defs.append('def %s M%d = %s' % (TYPE[host], idx, src))
        asserts.append(ASSERT[host] % (('M%d' if val else '! M%d') % idx))
    text = '\n'.join(HEAD[:4] + ['copy d'] + defs + HEAD[5:] + asserts) + '\n'
    o = cli.run_case(text)
    res.n += len(items)
    ok = (o.rc == 0 and o.out == 'PASS\n' and not o.exc)
    if ok:
        # laziness: the sequence of run-leaf calls of every expression
        by_idx = {}
        for c in seam.calls:
            nm = c['name']
            if nm == 'atc':
                continue
            by_idx.setdefault(int(nm[1:].split('x')[0]), []).append(nm)
        for idx, src, val, trace in items:
            if trace is not None and by_idx.get(idx, []) != trace:
                ok = False
                res.violation(('one', host, src, val, trace),
                              ['%s: operands evaluated %s, lazy left-to-right evaluation of the structure gives %s' % (src, by_idx.get(idx, []), trace)])
        if ok:
            return True
        return False
    if len(items) == 1:
        idx, src, val, trace = items[0]
        res.violation(('one', host, src, val, trace),
                      ['%s host: `%s` should be %s by its structure; case gave rc=%s %s' % (host, src, val, o.rc, o.out.strip()),
                       ' / '.join(cli.stderr_lines(o.err)[:6])])
        return False
    # bisect to the failing expressions
    mid = len(items) // 2
    run_batch(res, host, items[:mid], case)
    run_batch(res, host, items[mid:], case)
    return False


def run(case) -> Result:
    res = Result()
    k = case[0]
    if k == 'one':
        _, host, src, val, trace = case
        run_batch(res, host, [(0, src, val, trace)], case)
        return res
    if k == 'trees':
        _, host, fam, pstyle, lay, a, b = case
        trees = _T[fam][a:b]
        items = []
        for j, t in enumerate(trees):
            items.append(_item(host, a + j, t, pstyle, lay))
            if t[0] != 'L' and pstyle == 'min' and lay == 'single':
                res.nontrivial += 1
        for i in range(0, len(items), BATCH):
            run_batch(res, host, items[i:i + BATCH], case)
        res.outcomes[(host, pstyle, lay)] += len(items)
        if not res.samples:
            res.samples.append({'host': host, 'expression': items[-1][1], 'value': items[-1][2], 'lazy-evaluation-order': items[-1][3]})
        return res
    if k == 'layouts-d1':
        host = case[1]
        items = []
        idx = 0
        for t in _T['d1']:
            for pstyle in ('min', 'full'):
                for lay in LAYOUTS:
                    items.append(_item(host, idx, t, pstyle, lay))
                    idx += 1
        for i in range(0, len(items), BATCH):
            run_batch(res, host, items[i:i + BATCH], case)
        res.outcomes[(host, 'layouts-d1')] += len(items)
        return res
    if k == 'redundant':
        return _redundant(res, case[1], case)
    if k == 'malformed':
        return _malformed(res, case)
    if k in ('tail', 'tail-one'):
        return _tail(res, case[1], case)
    if k in ('mal-one', 'mal-nl'):
        return _mal_one(res, case[1], list(case[2]))
    if k == 'nl-before-op':
        return _nl_before_op(res, case[1], case)
    if k in ('op-starts-line', 'op-starts-line-one'):
        return _op_starts_line(res, case[1], case)
    if k == 'transformer':
        return _transformer(res, case)
    if k == 'context':
        return _context(res, case[1], case)
    raise ValueError(case)


def _item(host, idx, t, pstyle, lay, extra_wrap=None):
    leaf_tokens, leaves_for_eval = leaf_fns(host, idx)
    t = number(t)
    toks = tokens(t, leaf_tokens, pstyle, [0])
    if extra_wrap:
        toks = extra_wrap(toks)
    val, trace = ev(t, leaves_for_eval([0]))
    has_run = any(l[2] for l in LEAVES[host])
    return (idx, layout(toks, lay), val, trace if has_run else None)


def _spans(toks):
    """Token spans (i, j) that are complete sub-expressions in a minimal rendering: leaves, parenthesised groups, whole."""
    spans = {(0, len(toks))}
    stack = []
    for i, t in enumerate(toks):
        if t == '(':
            stack.append(i)
        elif t == ')':
            spans.add((stack.pop(), i + 1))
    return sorted(spans)


def _redundant(res, host, case):
    """Every placement of one and two redundant pairs of parentheses around complete sub-expressions (depth-1 trees)."""
    items = []
    idx = 0
    for t in _T['d1']:
        leaf_tokens, leaves_for_eval = leaf_fns(host, 0)
        base = tokens(t, leaf_tokens, 'min', [0])
        # operand spans: leaves (by re-rendering operands) — use structural spans: whole, each operand
        spans = _operand_spans(t, host)
        one = [[sp] for sp in spans]
        two = [[a, b] for a in spans for b in spans if a <= b]
        for placement in one + two:
            lt, le = leaf_fns(host, idx)
            t = number(t)
            toks = tokens(t, lt, 'min', [0])
            toks = _wrap(toks, placement)
            val, trace = ev(t, le([0]))
            has_run = any(l[2] for l in LEAVES[host])
            items.append((idx, layout(toks, 'single'), val, trace if has_run else None))
            idx += 1
    for i in range(0, len(items), BATCH):
        run_batch(res, host, items[i:i + BATCH], case)
    res.outcomes[(host, 'redundant')] += len(items)
    return res


def _operand_spans(t, host):
    """Spans (start, end) in the minimal token rendering of t that are complete operands or the whole."""
    lt, _ = leaf_fns(host, 0)
    toks = tokens(t, lt, 'min', [0])
    spans = [(0, len(toks))]
    if t[0] == 'not':
        spans.append((1, len(toks)))
    elif t[0] in ('and', 'or'):
        pos = 0
        for i, x in enumerate(t[1]):
            n = len(tokens(x, lt, 'min', [0]))
            if i:
                pos += 1
            spans.append((pos, pos + n))
            pos += n
    return spans


def _wrap(toks, placement):
    opens, closes = {}, {}
    for a, b in placement:
        opens[a] = opens.get(a, 0) + 1
        closes[b] = closes.get(b, 0) + 1
    out = []
    for i in range(len(toks) + 1):
        out += [')'] * closes.get(i, 0)
        if i < len(toks):
            out += ['('] * opens.get(i, 0)
            out.append(toks[i])
    return out


MAL_LEAVES = {
    'integer': [['==', '1'], ['>', '5'], ['constant', 'true']],
    'text': [['is-empty'], ['constant', 'true'], ['num-lines', '>', '5']],  # not `== 1`: `== X` alone is a text matcher (alias of equals)
    'line': [['line-num', '==', '1'], ['contents', 'is-empty'], ['constant', 'false']],
    'file': [['type', 'file'], ['name', 'nomatch'], ['contents', 'is-empty']],
    'files': [['num-files', '==', '2'], ['is-empty'], ['constant', 'true']],
}


def dangling_family(host):
    """Malformed token lists with a dangling / doubled infix operator of EVERY mix of && and || (the single mutations of the depth-1 trees only
    have one operator kind), bare, parenthesised and with an unbalanced opening parenthesis."""
    l0, l1, l2 = MAL_LEAVES[host]
    out = []
    for op1 in ('&&', '||'):
        for op2 in ('&&', '||'):
            core = l0 + [op1] + l1 + [op2]
            out += [core, ['('] + core + [')'], ['(', '('] + core + [')'], ['('] + core + [')', ')']]
            for op3 in ('&&', '||'):
                core3 = l0 + [op1] + l1 + [op2, op3] + l2
                out += [core3, ['('] + core3 + [')'], ['(', '('] + core3 + [')']]
                out += [['(', '('] + l0 + [op1] + l1 + [op2, ')', op3] + l2 + [')']]
    return out


def _malformed(res, case):
    _, host, a, b = case
    if a == -1:
        for m in dangling_family(host):
            _mal_one(res, host, m)
        return res
    seen = set()
    ml = MAL_LEAVES[host]
    for t in d1_trees(3)[a:b]:
        for pstyle in ('min', 'full'):
            toks = tokens(t, lambda i, occ: ml[i], pstyle, [0])
            muts = []
            for i in range(len(toks)):
                muts.append(toks[:i] + toks[i + 1:])
                muts.append(toks[:i] + [toks[i], toks[i]] + toks[i + 1:])
                if i + 1 < len(toks):
                    muts.append(toks[:i] + [toks[i + 1], toks[i]] + toks[i + 2:])
                if toks[i] in ('&&', '||'):
                    muts.append(toks[:i] + [toks[i][0]] + toks[i + 1:])  # half an operator: `&`, `|`
                if toks[i] in ('&&', '||', '!', '(', ')'):
                    # a QUOTED operator / parenthesis is a string, not an operator: the expression is malformed
                    muts.append(toks[:i] + ["'%s'" % toks[i]] + toks[i + 1:])
                    muts.append(toks[:i] + ['"%s"' % toks[i]] + toks[i + 1:])
            # the whole expression in parentheses, one of which is written as a quoted string
            for q in ("'%s'", '"%s"'):
                muts.append([q % '('] + toks + [')'])
                muts.append(['('] + toks + [q % ')'])
                muts.append(['(', '('] + toks + [q % ')', ')'])
            for m in muts:
                key = ' '.join(m)
                if key in seen or not m:
                    continue
                seen.add(key)
                _mal_one(res, host, m)
    return res


def _uses_run(t, host):
    if t[0] == 'L':
        return LEAVES[host][t[1]][2]
    if t[0] == 'not':
        return _uses_run(t[1], host)
    return any(_uses_run(x, host) for x in t[1])


def _tail(res, host, case):
    """A complete expression followed by more text on the line where it ends, written directly in the assertion that hosts it (not through a
    definition): the whole is not an expression of the grammar - a syntax error, never the value of the well-formed prefix."""
    w = world.get()
    seam = procseam.SEAM
    l0, l1, l2 = MAL_LEAVES[host]
    exprs = [l0, l0 + ['&&'] + l1, ['('] + l0 + [')'], ['!'] + l1, l0 + ['||'] + l1 + ['&&'] + l2, ['('] + l0 + ['||'] + l1 + [')']]
    tails = [[')'], l1, ['|'] + l1, ['&'] + l1, ['constant', 'true'], ['=='], ['(', ')'], ['x']]
    for e in exprs:
        for t in tails:
            for neg in (False, True):
                src = ' '.join(e + t)
                _setup_world(w, seam)
                line = ASSERT[host] % src
                if neg and host in ('file', 'files', 'text', 'line'):
                    line = line.replace(' : ', ' : ! ( ', 1) if False else line  # (polarity is part of the expression: not varied here)
                text = '\n'.join(HEAD + [line]) + '\n'
                o = cli.run_case(text)
                res.n += 1
                res.nontrivial += 1
                res.outcomes[(host, 'tail', o.ident)] += 1
                if o.rc != 65 or o.ident != 'SYNTAX_ERROR' or o.exc:
                    res.violation(('tail-one', host, tuple(e), tuple(t)), [
                        '%s host: `%s`: a complete expression followed by `%s` on the same line is a syntax error, but the case gave rc=%s %s'
                        % (host, line, ' '.join(t), o.rc, o.out.strip()), ' / '.join(cli.stderr_lines(o.err)[:4])[:300]])
                if not neg:
                    break
    return res


def _op_starts_line(res, host, case):
    """OUTSIDE parentheses a complete expression ends the instruction at the end of its line: a following line that starts with an infix operator is
    not a continuation (it is no instruction either), whatever the operator - `&&` and `||` alike.  Syntax error, never the value of a longer expression."""
    w = world.get()
    seam = procseam.SEAM
    l0, l1, l2 = MAL_LEAVES[host]
    firsts = [l0, ['!'] + l0, ['('] + l0 + [')'], l0 + ['&&'] + l1, l0 + ['||'] + l1, ['('] + l0 + ['||'] + l1 + [')']]
    only = (case[2], case[3], case[4]) if case[0] == 'op-starts-line-one' else None
    for fi, e in enumerate(firsts):
        for op in ('&&', '||'):
            for where in ('def', 'assert'):
                if only and only != (fi, op, where):
                    continue
                src = ' '.join(e) + '\n' + op + ' ' + ' '.join(l2)
                _setup_world(w, seam)
                if where == 'def':
                    text = '\n'.join(HEAD[:4] + ['copy d', 'def %s M = %s' % (TYPE[host], src)] + HEAD[5:]) + '\n'
                else:
                    text = '\n'.join(HEAD + [ASSERT[host] % src]) + '\n'
                o = cli.run_case(text)
                res.n += 1
                res.nontrivial += 1
                res.outcomes[(host, 'op-starts-line', op, o.ident)] += 1
                if o.rc != 65 or o.ident != 'SYNTAX_ERROR' or o.exc:
                    res.violation(('op-starts-line-one', host, fi, op, where), [
                        '%s host (%s): `%s` - the expression is complete at the end of its line; the next line starts with `%s` and is neither a continuation '
                        '(outside parentheses) nor an instruction: expected SYNTAX_ERROR, got rc=%s %s' % (host, where, src.replace('\n', '<NL>'), op, o.rc, o.out.strip()),
                        ' / '.join(cli.stderr_lines(o.err)[:4])[:300]], {'file': text})
    return res


def _mal_one(res, host, toks):
    tree = ref_parse(toks, host)
    w = world.get()
    seam = procseam.SEAM
    _setup_world(w, seam)
    src = ' '.join(toks)
    one = ('mal-one', host, tuple(toks))
    res.n += 1
    if tree is None:
        # the definition is the last line of the file: an expression that wants more tokens meets the end of file
        # (arguments may continue on following lines, which would otherwise swallow the next instruction or header)
        text = '\n'.join(HEAD[:4] + ['copy d'] + HEAD[5:] + ['def %s M = %s' % (TYPE[host], src)]) + '\n'
        o = cli.run_case(text)
        res.outcomes[(host, 'malformed-invalid', o.ident)] += 1
        if o.rc != 65 or o.ident not in ('SYNTAX_ERROR', 'VALIDATION_ERROR') or o.exc:
            res.violation(one, ['%s host: malformed `%s` is not an expression of the documented grammar, but the case gave rc=%s %s (expected exit 65)'
                                % (host, src, o.rc, o.out.strip()), ' / '.join(cli.stderr_lines(o.err)[:5])])
        # no layout makes a malformed expression well-formed: the same tokens with a line break before every infix operator,
        # bare and wrapped in one more pair of parentheses (a dangling operator at the start of a line must not be taken for the `)`)
        if any(t in ('&&', '||') for t in toks):
            for wrapped in (False, True):
                src2 = layout((['('] + list(toks) + [')']) if wrapped else list(toks), 'nl-before-op')
                _setup_world(w, seam)
                text = '\n'.join(HEAD[:4] + ['copy d'] + HEAD[5:] + ['def %s M = %s' % (TYPE[host], src2)]) + '\n'
                o = cli.run_case(text)
                res.n += 1
                res.outcomes[(host, 'malformed-invalid-nl', o.ident)] += 1
                if o.rc != 65 or o.ident not in ('SYNTAX_ERROR', 'VALIDATION_ERROR') or o.exc:
                    res.violation(('mal-nl', host, tuple(toks), wrapped), [
                        '%s host: malformed `%s` (line break before each infix operator%s) is not an expression of the documented grammar, but the case gave rc=%s %s (expected exit 65)'
                        % (host, src2.replace('\n', '<NL>'), ', wrapped in parentheses' if wrapped else '', o.rc, o.out.strip()), ' / '.join(cli.stderr_lines(o.err)[:5])])
    else:
        val = ref_eval(tree, MODEL[host])
        text = '\n'.join(HEAD[:4] + ['copy d'] + HEAD[5:] + ['def %s M = %s' % (TYPE[host], src), ASSERT[host] % ('M' if val else '! M')]) + '\n'
        o = cli.run_case(text)
        res.outcomes[(host, 'mutation-still-valid', o.ident)] += 1
        res.nontrivial += 1
        if o.rc != 0 or o.out != 'PASS\n' or o.exc:
            res.violation(one, ['%s host: `%s` is a valid expression with value %s; case gave rc=%s %s' % (host, src, val, o.rc, o.out.strip()),
                                ' / '.join(cli.stderr_lines(o.err)[:5])])
    return res


def _nl_before_op(res, host, case):
    """May-be-rejected layout: a line break before an infix operator (inside parentheses: the whole is wrapped).  Syntax error or the reference value."""
    w = world.get()
    seam = procseam.SEAM
    for idx, t in enumerate(_T['d1']):
        if t[0] not in ('and', 'or') or _uses_run(t, host):
            continue
        lt, le = leaf_fns(host, idx)
        toks = ['('] + tokens(t, lt, 'min', [0]) + [')']
        val, _ = ev(t, le([0]))
        src = layout(toks, 'nl-before-op')
        _setup_world(w, seam)
        text = '\n'.join(HEAD[:4] + ['copy d', 'def %s M = %s' % (TYPE[host], src)] + HEAD[5:] + [ASSERT[host] % ('M' if val else '! M')]) + '\n'
        o = cli.run_case(text)
        res.n += 1
        res.outcomes[(host, 'nl-before-op', o.ident)] += 1
        # inside parentheses an infix operator may stand at the start of a line (the project's own parser tests require it:
        # TestCombinedExpressions.test__inside_parentheses__primitive_recursive_followed_by_binary_op): for a chain of ONE operator kind this is
        # must-accept with the reference value.  (Mixed chains, e.g. `( a || b <NL> && c )`, are rejected by the unchanged program: not required.)
        if not (o.rc == 0 and o.out == 'PASS\n'):
            res.violation(case, ['%s host: `%s` (inside parentheses, line break before each operator of a chain of one operator kind) must be accepted with value %s; got rc=%s %s / %s'
                                 % (host, src.replace('\n', '<NL>'), val, o.rc, o.out.strip(), ' / '.join(cli.stderr_lines(o.err)[-2:])[:200])])
    return res


def _transformer(res, case):
    """`|` composes left to right; parentheses and layout change nothing."""
    w = world.get()
    seam = procseam.SEAM
    _setup_world(w, seam)
    w.write('t.txt', 'a')
    n = len(TSTEPS)
    lines_, exps = [], []
    idx = 0
    for k in (1, 2, 3):
        for seq in itertools.product(range(n), repeat=k):
            val = 'a'
            for i in seq:
                val = TSTEPS[i][1](val)
            steps = [TSTEPS[i][0] for i in seq]
            variants = []
            flat = []
            for i, s in enumerate(steps):
                if i:
                    flat.append('|')
                flat += s
            variants.append(flat)
            if k >= 2:
                variants.append(['('] + steps[0] + ['|'] + steps[1] + [')'] + sum([['|'] + s for s in steps[2:]], []))
                variants.append(steps[0] + ['|', '('] + sum([(['|'] if j else []) + s for j, s in enumerate(steps[1:])], []) + [')'])
                variants.append(sum([(['|'] if j else []) + ['('] + s + [')'] for j, s in enumerate(steps)], []))
            for v in variants:
                for lay in ('single', 'nl-after-pipe', 'double'):
                    src = layout(v, lay) if lay != 'nl-after-pipe' else ' '.join(v).replace(' | ', ' |\n   ')
                    lines_.append(('def text-transformer T%d = %s' % (idx, src), "contents t.txt : -transformed-by T%d equals '%s'" % (idx, val)))
                    idx += 1
    for i in range(0, len(lines_), BATCH):
        _setup_world(w, seam)
        w.write('t.txt', 'a')
        chunk = lines_[i:i + BATCH]
        text = '\n'.join(['[conf]', 'act-home = .', '[setup]', 'copy t.txt'] + [d for d, _ in chunk] + ['[act]', '% atc', '[assert]'] + [a for _, a in chunk]) + '\n'
        o = cli.run_case(text)
        res.n += len(chunk)
        res.outcomes[('transformer', o.ident)] += 1
        if o.rc != 0 or o.out != 'PASS\n':
            res.violation(case, ['transformer chains %d..%d: expected PASS, got rc=%s %s' % (i, i + BATCH, o.rc, o.out.strip()),
                                 ' / '.join(cli.stderr_lines(o.err)[:6])], {'file': text[:2500]})
    # the same chains as the transformation of a PROGRAM's output and through symbol references as operands
    progs = []
    idx2 = 0
    for k in (2, 3):
        for seq in itertools.product(range(n), repeat=k):
            if 4 not in seq and k == 3:
                continue  # (the identity step is what makes grouping matter for the implementation's shortcuts)
            val = 'a'
            for i in seq:
                val = TSTEPS[i][1](val)
            steps = [' '.join(TSTEPS[i][0]) for i in seq]
            grouped = '( %s | %s )' % (steps[0], steps[1]) + ''.join(' | ' + s_ for s_ in steps[2:])
            grouped_r = steps[0] + ' | ( ' + ' | '.join(steps[1:]) + ' )'
            for expr in (' | '.join(steps), grouped, grouped_r):
                progs.append(('file p%d.txt = -stdout-from %% gen\n   -transformed-by ( %s )' % (idx2, expr), "contents p%d.txt : equals '%s'" % (idx2, val)))
                idx2 += 1
            progs.append(('def text-transformer S%d = %s | %s\ndef text-transformer R%d = S%d%s' % (idx2, steps[0], steps[1], idx2, idx2, ''.join(' | ' + s_ for s_ in steps[2:])),
                          "contents t.txt : -transformed-by R%d equals '%s'" % (idx2, val)))
            idx2 += 1
    for i in range(0, len(progs), BATCH):
        _setup_world(w, seam)
        seam.script['gen'] = {'out': 'a'}
        w.write('t.txt', 'a')
        chunk = progs[i:i + BATCH]
        text = '\n'.join(['[conf]', 'act-home = .', '[setup]', 'copy t.txt'] + [d for d, _ in chunk] + ['[act]', '% atc', '[assert]'] + [a for _, a in chunk]) + '\n'
        o = cli.run_case(text)
        res.n += len(chunk)
        res.outcomes[('transformer-program', o.ident)] += 1
        if o.rc != 0 or o.out != 'PASS\n':
            res.violation(case, ['transformer chains as a program\'s -transformed-by / through symbols %d..%d: expected PASS, got rc=%s %s' % (i, i + BATCH, o.rc, o.out.strip()),
                                 ' / '.join(cli.stderr_lines(o.err)[:6])], {'file': text[:2500]})
    res.nontrivial += idx + idx2
    return res


# simple-expression contexts followed by an outer infix operator.
# (host, un-parenthesised source, intended explicit structure, swallowed structure, expected value)
# models: exit code 1; f.txt = 'x\n' (1 line, 'x'); d = {one.txt, two.txt}; d2 = {a.txt, sub/ {b.txt}}
CONTEXTS = [
    ('text', 'every line : constant false || num-lines == 1', '( every line : constant false ) || num-lines == 1', None, True),
    ('text', 'any line : constant true && is-empty', '( any line : constant true ) && is-empty', None, False),
    ('text', 'num-lines == 1 && is-empty', '( num-lines == 1 ) && is-empty', None, False),
    ('text', 'num-lines == 2 || ! is-empty', '( num-lines == 2 ) || ! is-empty', None, True),
    ('text', "-transformed-by char-case -to-upper equals 'x' || matches x", "( -transformed-by char-case -to-upper equals 'x' ) || matches x", None, True),
    ('text', "-transformed-by char-case -to-upper matches X && matches x", "( -transformed-by char-case -to-upper matches X ) && matches x", None, True),
    ('text', "-transformed-by char-case -to-upper matches x || matches X", "( -transformed-by char-case -to-upper matches x ) || matches X", None, False),
    ('line', 'contents is-empty || line-num == 1', '( contents is-empty ) || line-num == 1', None, True),
    ('line', 'contents matches x && line-num == 2', '( contents matches x ) && line-num == 2', None, False),
    ('line', "contents num-lines == 0 || contents matches x", "( contents num-lines == 0 ) || contents matches x", None, True),
    ('line', 'line-num == 2 || contents matches x', '( line-num == 2 ) || contents matches x', None, True),
    ('line', 'line-num == 1 && contents is-empty', '( line-num == 1 ) && contents is-empty', None, False),
    ('file', "contents is-empty || type file", "( contents is-empty ) || type file", None, True),
    ('file', "contents matches x && type dir", "( contents matches x ) && type dir", None, False),
    ('file', "contents num-lines == 1 && name 'f.*'", "( contents num-lines == 1 ) && name 'f.*'", None, True),
    ('files', 'num-files == 2 && is-empty', '( num-files == 2 ) && is-empty', None, False),
    ('files', 'num-files == 3 || ! is-empty', '( num-files == 3 ) || ! is-empty', None, True),
    ('files', 'every file : type dir || num-files == 2', '( every file : type dir ) || num-files == 2', None, True),
    ('files', 'any file : type file && is-empty', '( any file : type file ) && is-empty', None, False),
    ('files', "-selection name 'one*' num-files == 1 && num-files == 2", "( -selection name 'one*' num-files == 1 ) && num-files == 2", None, True),
    ('files', "-selection name 'one*' num-files == 2 || num-files == 2", "( -selection name 'one*' num-files == 2 ) || num-files == 2", None, True),
    ('files', "-selection name 'one*' num-files == 1 && num-files == 1", "( -selection name 'one*' num-files == 1 ) && num-files == 1", None, False),
    ('files', "-selection name 'one*' num-files == 2 || num-files == 1", "( -selection name 'one*' num-files == 2 ) || num-files == 1", None, False),
    ('files', "-with-pruned constant true num-files == 2 && is-empty", "( -with-pruned constant true num-files == 2 ) && is-empty", None, False),
    ('files', "-with-pruned constant true is-empty || num-files == 2", "( -with-pruned constant true is-empty ) || num-files == 2", None, True),
    ('files2', "-with-pruned name sub num-files == 2 && num-files == 2", "( -with-pruned name sub num-files == 2 ) && num-files == 2", None, False),
    ('files2', "-selection type file num-files == 2 && num-files == 3", "( -selection type file num-files == 2 ) && num-files == 3", None, True),
    ('files2', "-selection type file num-files == 2 && num-files == 2", "( -selection type file num-files == 2 ) && num-files == 2", None, False),
    ('files2', "-selection type dir num-files == 3 || num-files == 1", "( -selection type dir num-files == 3 ) || num-files == 1", None, False),
    ('filedir', "dir-contents num-files == 2 && type file", "( dir-contents num-files == 2 ) && type file", None, False),
    ('filedir', "dir-contents is-empty || type dir", "( dir-contents is-empty ) || type dir", None, True),
    ('filedir', "dir-contents -recursive num-files == 2 && name d", "( dir-contents -recursive num-files == 2 ) && name d", None, True),
    ('tt', "replace -at line-num == 1 x y | char-case -to-upper", None, None, 'Y\n'),
    ('tt', "replace -at contents matches x x yx | replace y z", None, None, 'zx\n'),
    ('tt', "filter line-num == 1 | replace x y", None, None, 'y\n'),
    ('tt', "filter contents is-empty | replace x y", None, None, ''),
    ('tt', "replace -at line-num == 2 x y | replace x z", None, None, 'z\n'),
    ('tt', "grep x | char-case -to-upper | replace X 'a b'", None, None, 'a b\n'),
    ('bad', "contents f.txt : -transformed-by char-case -to-upper | strip equals 'X'", None, None, 65),
    ('bad', "contents f.txt : every line : line-num == 1 && constant true && nosuchword", None, None, 65),
]

CTX_ASSERT = {'text': 'contents f.txt : %s', 'line': 'contents f.txt : every line : ( %s )', 'file': 'exists f.txt : %s',
              'files': 'dir-contents d : %s', 'files2': 'dir-contents d2 : -recursive %s', 'filedir': 'exists d : %s'}


def _context(res, i, case):
    host, src, explicit, _, val = CONTEXTS[i]
    w = world.get()
    seam = procseam.SEAM
    _setup_world(w, seam)
    w.write('d2/a.txt', 'a')
    w.write('d2/sub/b.txt', 'b')
    head = ['[conf]', 'act-home = .', '[setup]', 'copy f.txt', 'copy d', 'copy d2', '[act]', '% atc', '[assert]']
    res.n += 1
    res.nontrivial += 1
    if host == 'bad':
        text = '\n'.join(head + [src]) + '\n'
        o = cli.run_case(text)
        res.outcomes[('context-bad', o.ident)] += 1
        if o.rc != 65:
            res.violation(case, ['`%s` is not well formed (infix operator in a simple-expression context), expected exit 65, got rc=%s %s' % (src, o.rc, o.out.strip())])
        return res
    if host == 'tt':
        w.write('exp.txt', val)
        text = '\n'.join(head[:6] + ['copy exp.txt'] + head[6:] + [
            'contents f.txt : -transformed-by ( %s ) equals -contents-of -rel-act exp.txt' % src,
            'def text-transformer T = %s' % src,
            'contents f.txt : -transformed-by T equals -contents-of -rel-act exp.txt']) + '\n'
        o = cli.run_case(text)
        res.outcomes[('context-tt', o.ident)] += 1
        if o.rc != 0 or o.out != 'PASS\n':
            res.violation(case, ['`%s` applied to "x\\n" should give %r (| binds at the transformer level); rc=%s %s' % (src, val, o.rc, o.out.strip()),
                                 ' / '.join(cli.stderr_lines(o.err)[:6])])
        return res
    tmpl = CTX_ASSERT[host]
    pol = (lambda s: s) if val else (lambda s: '! ( %s )' % s)
    lines_ = [tmpl % pol(explicit)]
    # the un-parenthesised form, in the instruction and via def (full parser)
    if val:
        lines_.append(tmpl % src)
    ty = {'text': 'text-matcher', 'line': 'line-matcher', 'file': 'file-matcher', 'files': 'files-matcher', 'files2': 'files-matcher', 'filedir': 'file-matcher'}[host]
    text = '\n'.join(head[:6] + ['def %s M = %s' % (ty, src)] + head[6:] + lines_ + [tmpl % ('M' if val else '! M')]) + '\n'
    o = cli.run_case(text)
    res.outcomes[('context', o.ident)] += 1
    if o.rc != 0 or o.out != 'PASS\n':
        res.violation(case, ['`%s` must be read as `%s` (value %s): rc=%s %s' % (src, explicit, val, o.rc, o.out.strip()),
                             ' / '.join(cli.stderr_lines(o.err)[:6])], {'file': text})
    return res
