"""C15 — directory trees: populating from a FILE-LIST and matching directory contents (DESIGN §3 C15).

Part P: `dir d = FILE-LIST` / `dir d += FILE-LIST` for every list of the bound, under --keep: the tree on disk equals the reference
        interpretation, or the case ends in HARD_ERROR (VALIDATION_ERROR for invalid names); nothing outside d is touched.
Part M: trees (files, dirs, symbolic links incl. dangling) prepared by the harness x files-matcher expressions x depth options,
        asserted through `dir-contents` in the polarity the reference model gives.
"""
import itertools
import os
import re

from mc import world, procseam, cli, kf
from mc.ref import tree as T
from mc.result import Result

PROPERTY = 'C15'
LEVEL = 'exploration'
CASE_GUARD_S = {'quick': 300, 'thorough': 3600}  # a case is a composite (a block of expressions x all texts, ...)
CHUNK = 30
RULE = ('P: all FILE-LISTs of <= 2 entries over {a, b, d, d/a, d/e/a} x {file, file =, file +=, dir, dir = {nested}, dir += {nested}, dir = dir-contents-of, dir += dir-contents-of} plus invalid names '
        '(/abs, ../x, d/../x, ..), all lists of 3 over a reduced alphabet (thorough: 3 over the full one), each as `dir d = L` and as `dir d += L` onto a pre-populated directory holding a file, '
        'a directory, and symbolic links (to a file, to a directory, dangling); M: every tree of <= 4 (thorough 5) nodes from a 14-item universe (regular files empty / non-empty, directories, symbolic links to '
        'file / directory / nothing, nested to depth 3) x ~170 files-matcher expressions (is-empty, num-files, matches [-full] with and without per-file matchers, every/any file, -selection, -with-pruned (also nested), '
        '!, &&, ||) x {direct, -recursive with every (min-depth, max-depth) in {absent,0..3}^2 (quick: {absent,0..2}^2)}; non-trivial = the list has a clash / append / nesting (P) or the expected verdict differs between the direct and some recursive model (M)')
ASSUMPTIONS = [
    'uid 0: permission-related failures cannot occur',
    'after a failing population the partial tree is not compared (the statement only requires HARD_ERROR and that nothing outside the populated directory is created)',
    'contents matchers are only applied to regular files (HARD_ERROR otherwise, by documentation)',
]

# ------------------------------------------------------------------------------------------------
# Part P
# ------------------------------------------------------------------------------------------------
NAMES = ('a', 'b', 'd', 'd/a', 'd/e/a')
SRC = {'srcd': {'s1': ('f', 'S1'), 'sub': ('d',), 'sub/s2': ('f', 'S2')}, 'srcd2': {'a': ('f', 'from-src'), 'd': ('d',), 'd/x': ('f', 'X')}}
NESTED = [('file', 'in', None), ('dir=', 'nd', [('file=', 'deep', 'D')])]
MORE = [('file=', 'more', 'M'), ('file+=', 'a', '+')]


def spec_kinds(name):
    return [('file', name, None), ('file=', name, 'x'), ('file+=', name, 'y'), ('dir', name, None), ('dir=', name, NESTED), ('dir+=', name, MORE),
            ('dir=copy', name, 'srcd'), ('dir+=copy', name, 'srcd2')]


def alphabet(full):
    out = []
    for n in (NAMES if full else ('a', 'd', 'd/a')):
        ks = spec_kinds(n)
        out += ks if full else ks[:6]
    if full:
        for bad in ('/abs', '../x', 'd/../x', '..'):
            out += [('file', bad, None), ('dir', bad, None)]
    return out


PRE = {'a': ('f', 'pre-a'), 'e': ('d',), 'e/f': ('f', 'F'), 'lf': ('l', 'a'), 'ld': ('l', 'e'), 'dangling': ('l', '../outside.txt'), 's1': ('l', '../outside-s1.txt')}


def render_specs(specs, indent=' '):
    lines = []
    for kind, name, arg in specs:
        if kind == 'file':
            lines.append('%sfile %s' % (indent, name))
        elif kind == 'file=':
            lines.append("%sfile %s = '%s'" % (indent, name, arg))
        elif kind == 'file+=':
            lines.append("%sfile %s += '%s'" % (indent, name, arg))
        elif kind == 'dir':
            lines.append('%sdir %s' % (indent, name))
        elif kind in ('dir=', 'dir+='):
            lines.append('%sdir %s %s {' % (indent, name, '=' if kind == 'dir=' else '+='))
            lines += render_specs(arg, indent + '  ')
            lines.append('%s}' % indent)
        elif kind == 'dir=copy':
            lines.append('%sdir %s = dir-contents-of -rel-home %s' % (indent, name, arg))
        elif kind == 'dir+=copy':
            lines.append('%sdir %s += dir-contents-of -rel-home %s' % (indent, name, arg))
    return lines


def disk_tree(root):
    out = {}
    for dp, dns, fns in os.walk(root):
        rel = os.path.relpath(dp, root)
        for n in list(dns):
            p = os.path.join(dp, n)
            r = n if rel == '.' else rel + '/' + n
            if os.path.islink(p):
                out[r] = ('l', os.readlink(p))
                dns.remove(n)
            else:
                out[r] = ('d',)
        for n in fns:
            p = os.path.join(dp, n)
            r = n if rel == '.' else rel + '/' + n
            if os.path.islink(p):
                out[r] = ('l', os.readlink(p))
            else:
                with open(p) as f:
                    out[r] = ('f', f.read())
    return out


def prepare(tier):
    cli.main_program()
    procseam.install()
    _T['trees'] = trees(tier)
    _T['fsms'] = fsms(tier)


_T = {}


def cases(tier):
    A = alphabet(True)
    R = alphabet(False)
    for mode in ('fresh', 'append'):
        for k in (1, 2):
            for seq in itertools.product(range(len(A)), repeat=k):
                yield ('P', mode, 'full', seq)
        for seq in itertools.product(range(len(R)), repeat=3):
            yield ('P', mode, 'reduced', seq)
        if tier == 'thorough':
            for seq in itertools.product(range(len(A)), repeat=3):
                yield ('P', mode, 'full', seq)
    for i in range(len(PTOP)):
        yield ('Ptop', i)
    for kind in ('name', 'stem', 'suffixes', 'suffix'):
        for how in ('single', 'selection'):
            yield ('Names', kind, how)
    for i in range(len(PBYTES_INSTR)):
        yield ('Pbytes', i)
    for i in range(len(PESCAPE)):
        yield ('Pescape', i)
    for i in range(len(PMODIFY)):
        yield ('Pmodify', i)
    for i in range(len(PNOTDIR)):
        yield ('Pnotdir', i)
    nt = len(trees(tier))
    for ti in range(nt):
        for oi in range(len(OPTIONS)):
            if tier == 'quick' and oi not in QUICK_OPTIONS:
                continue
            yield ('M', ti, oi)


def run(case) -> Result:
    res = Result()
    if case[0] == 'P':
        return _populate(res, case)
    if case[0] == 'Ptop':
        return _ptop(res, case)
    if case[0] == 'Names':
        return _names(res, case)
    if case[0] == 'Pbytes':
        return _pbytes(res, case)
    if case[0] == 'Pescape':
        return _pescape(res, case)
    if case[0] == 'Pmodify':
        return _pmodify(res, case)
    if case[0] == 'Pnotdir':
        return _pnotdir(res, case)
    return _match(res, case)


def _check_names(specs):
    for kind, name, arg in specs:
        T.check_name(name)
        if kind in ('dir=', 'dir+='):
            _check_names(arg)


def _populate(res, case):
    _, mode, alph, seq = case
    A = alphabet(alph == 'full')
    specs = [A[i] for i in seq]
    w = world.get()
    w.reset()
    seam = procseam.SEAM
    seam.reset()
    for sname, st in SRC.items():
        for p, n in st.items():
            if n[0] == 'f':
                w.write(sname + '/' + p, n[1])
            else:
                (w.home / sname / p).mkdir(parents=True, exist_ok=True)
    snap = world.snapshot_tree(w.home)
    lines = ['[setup]']
    ref = {}
    if mode == 'append':
        lines += ["dir d = {", "  file a = 'pre-a'", '  dir e = {', "    file f = 'F'", '  }', '}', 'run % mklinks']
        ref = dict(PRE)

        def hook(rec):
            if rec['name'] == 'mklinks':
                d = os.path.join(rec['cwd'], 'd')
                os.symlink('a', os.path.join(d, 'lf'))
                os.symlink('e', os.path.join(d, 'ld'))
                os.symlink('../outside.txt', os.path.join(d, 'dangling'))
                os.symlink('../outside-s1.txt', os.path.join(d, 's1'))

        seam.on_call = hook
        seam.default = {'exit': 0}
        lines += ['dir d += {'] + render_specs(specs) + ['}']
    else:
        lines += ['dir d = {'] + render_specs(specs) + ['}']
    lines += ['[act]']
    text = '\n'.join(lines) + '\n'
    snap = world.snapshot_tree(w.home)
    o = cli.run_case(text, args=['--keep'])
    snap.pop('c.case', None)
    after = world.snapshot_tree(w.home)
    after.pop('c.case', None)
    ident = o.err.split('\n')[0]
    res.n += 1
    errs = []
    try:
        _check_names(specs)  # names are validated before anything is created
        exp = T.populate(dict(ref), '', specs, SRC)
        expected = 'ok'
    except T.PopulateError as ex:
        expected = 'error'
        why = str(ex)
    except T.InvalidName as ex:
        expected = 'invalid'
        why = 'invalid name %s' % ex
    # symbolic links in the pre-populated directory: a write through a link is a clash by the reference (the path exists)
    sds = o.out.strip()
    if expected == 'ok':
        if ident != 'PASS' or not os.path.isdir(sds):
            errs.append('the list denotes a tree: expected PASS, got %s / %s' % (ident, ' / '.join(cli.stderr_lines(o.err)[-3:])[:300]))
        else:
            got = disk_tree(os.path.join(sds, 'act', 'd'))
            if got != exp:
                diff = sorted(set(got.items()) ^ set(exp.items()))[:6]
                errs.append('tree on disk differs from the denoted tree: %s' % (diff,))
    elif expected == 'error':
        if ident != 'HARD_ERROR':
            errs.append('%s: expected HARD_ERROR, got %s' % (why, ident))
    else:
        if ident not in ('VALIDATION_ERROR', 'HARD_ERROR', 'SYNTAX_ERROR'):
            errs.append('%s: must be rejected, got %s' % (why, ident))
    if os.path.isdir(sds):
        outside = sorted(set(os.listdir(os.path.join(sds, 'act'))) - {'d'})
        if outside:
            errs.append('files were created outside the populated directory: act/%s' % outside)
        if os.listdir(os.path.join(sds, 'tmp')):
            errs.append('tmp/ was touched')
    if after != snap:
        errs.append('home directory changed')
    if os.path.exists('/abs'):
        errs.append('/abs was created')
    res.outcomes[('P', mode, expected, ident)] += 1
    if expected != 'ok' or any(k in ('file+=', 'dir=', 'dir+=', 'dir=copy', 'dir+=copy') for k, _, _ in specs) or mode == 'append':
        res.nontrivial += 1
    if not res.samples and len(specs) == 3 and expected == 'ok':
        res.samples.append({'file': text, 'tree': {k: list(v) for k, v in exp.items()}})
    if errs:
        res.violation(case, errs, {'file': text})
    return res


# whole-directory sources onto a pre-populated directory: (links made in d before, instruction, expected 'ok' tree | 'error')
PTOP = [
    ({'s1': '../outside-s1.txt'}, 'dir d += dir-contents-of -rel-home srcd', 'error'),          # clash with a dangling symbolic link
    ({'sub': '../outside-dir'}, 'dir d += dir-contents-of -rel-home srcd', 'error'),           # directory name clashes with a dangling link
    ({'s1': 'a'}, 'dir d += dir-contents-of -rel-home srcd', 'error'),                          # clash with a link to an existing file
    ({}, 'dir d += dir-contents-of -rel-home srcd2', 'error'),                                  # a exists
    ({}, 'dir d += dir-contents-of -rel-home srcd', {'a': ('f', 'pre-a'), 's1': ('f', 'S1'), 'sub': ('d',), 'sub/s2': ('f', 'S2')}),
    ({'other': '../outside.txt'}, 'dir d += dir-contents-of -rel-home srcd', {'a': ('f', 'pre-a'), 'other': ('l', '../outside.txt'), 's1': ('f', 'S1'), 'sub': ('d',), 'sub/s2': ('f', 'S2')}),
    ({'s1': '../outside-s1.txt'}, 'dir d += {\n dir inner = dir-contents-of -rel-home srcd\n}', {'a': ('f', 'pre-a'), 's1': ('l', '../outside-s1.txt'), 'inner': ('d',), 'inner/s1': ('f', 'S1'), 'inner/sub': ('d',), 'inner/sub/s2': ('f', 'S2')}),
    ({'dl': '../outside.txt'}, "dir d += {\n file dl = 'through the link'\n}", 'error'),
    ({'dl': '../outside.txt'}, "dir d += {\n file dl += 'through the link'\n}", 'error'),
    ({'dl': '../outside-dir'}, "dir d += {\n dir dl += {\n  file x\n }\n}", 'error'),
    ({'dl': '../outside-dir'}, "dir d += {\n file dl/x\n}", 'error'),
]


# the files of a copied directory are the SAME files: byte for byte, whatever they contain (not text, CR LF, lone CR, empty), at the top and below
PBYTES = {'bin.dat': b'\xff\xfe\x00bin', 'crlf.txt': b'a\r\nb\r\n', 'cr.txt': b'a\rb', 'empty': b'', 'utf8.txt': 'e\u0301 \u00e9\n'.encode('utf-8'), 'nul': b'\x00\x00',
          'sub/bin2.dat': b'\x80\x81', 'sub/crlf2.txt': b'\r\n\r\n', 'sub/deep/x': b'\xfe'}
PBYTES_INSTR = ['dir d = dir-contents-of -rel-home bsrc', 'dir d = {\n dir inner = dir-contents-of -rel-home bsrc\n}', "dir d = {\n file pre = 'x'\n}\ndir d += dir-contents-of -rel-home bsrc",
                'dir d = dir-contents-of -rel-home bsrc/sub', 'copy bsrc d']


def _pbytes(res, case):
    instr = PBYTES_INSTR[case[1]]
    w = world.get()
    w.reset()
    seam = procseam.SEAM
    seam.reset()
    for rel, data in PBYTES.items():
        p = w.write('bsrc/' + rel, '')
        with open(p, 'wb') as f:
            f.write(data)
    text = '[setup]\n' + instr + '\n[act]\n'
    o = cli.run_case(text, args=['--keep'])
    ident = o.err.split('\n')[0]
    sds = o.out.strip()
    res.n += 1
    res.nontrivial += 1
    errs = []
    if ident != 'PASS' or not os.path.isdir(sds):
        errs.append('`%s` (the source holds files that are not text, CR LF files, empty files): expected PASS, got %s / %s' % (
            instr.replace('\n', ' '), ident, ' / '.join(cli.stderr_lines(o.err)[-3:])[:300]))
    else:
        base = os.path.join(sds, 'act', 'd')
        if 'inner' in instr:
            base = os.path.join(base, 'inner')
        want = dict(PBYTES)
        if instr.endswith('bsrc/sub'):
            want = {k[4:]: v for k, v in PBYTES.items() if k.startswith('sub/')}
        for rel, data in sorted(want.items()):
            try:
                with open(os.path.join(base, rel), 'rb') as f:
                    got = f.read()
            except OSError as ex:
                got = 'ERR %s' % ex
            if got != data:
                errs.append('copied file %s holds %r, the source file holds %r' % (rel, got, data))
    res.outcomes[('Pbytes', ident)] += 1
    if errs:
        res.violation(case, errs, {'file': text})
    return res


# the populated directory d already holds a symbolic link `lnk` to a directory OUTSIDE d; entries whose names pass through the link
# (no `..`, not absolute: the name check accepts them) must not create anything outside d
# appending to / modifying an existing file that the OS refuses to write: a HARD_ERROR of the instruction, like a failing creation
PMODIFY = ["dir d += {\n file l += 'x'\n}", "file d/l += 'x'", "dir d += {\n dir sub = {\n  file inner = 'y'\n }\n file l += 'x'\n}"]


def _pmodify(res, case):
    instr = PMODIFY[case[1]]
    if not os.path.exists('/proc/version'):
        res.stats['no /proc/version on this system'] += 1
        return res
    w = world.get()
    w.reset()
    seam = procseam.SEAM
    seam.reset()
    seam.default = {'exit': 0}

    def hook(rec):
        if rec['name'] == 'mklinks':
            os.symlink('/proc/version', os.path.join(rec['cwd'], 'd', 'l'))

    seam.on_call = hook
    text = "[setup]\ndir d\nrun % mklinks\n" + instr + '\n[act]\n'
    o = cli.run_case(text)
    res.n += 1
    res.nontrivial += 1
    res.outcomes[('Pmodify', o.ident)] += 1
    if o.ident != 'HARD_ERROR' or o.rc != 128:
        res.violation(case, ['`%s` where d/l is a link to a file the OS does not allow to be written (/proc/version): expected HARD_ERROR, got %s / %s' % (
            instr.replace('\n', ' '), o.ident, ' / '.join(cli.stderr_lines(o.err)[-2:])[:300])], {'file': text})
    return res


# a name whose non-final component is an existing REGULAR FILE: the instruction fails with HARD_ERROR (plain instructions, lists, nested += lists)
PNOTDIR = ["file a\ndir a/b", "file a\nfile a/b", "file a\ndir a/b = {\n file c\n}", "file a\nfile a/b/c = 'x'", "dir d = {\n file a\n}\ndir d/a/b",
           "dir d = {\n file a\n}\ndir d += {\n dir a/b\n}", "dir s = {\n file f\n}\ndir s += {\n file f/g = 'x'\n}", "dir d = {\n file a\n}\nfile d/a/b",
           "dir d = {\n file a\n dir sub\n}\ndir d += {\n dir sub += {\n  file ../a/x\n }\n}", "file a\ncopy -rel-act a a/b"]


def _pnotdir(res, case):
    instr = PNOTDIR[case[1]]
    w = world.get()
    w.reset()
    seam = procseam.SEAM
    seam.reset()
    text = '[setup]\n' + instr + '\n[act]\n'
    o = cli.run_case(text)
    res.n += 1
    res.nontrivial += 1
    res.outcomes[('Pnotdir', o.ident)] += 1
    ok = (o.ident == 'HARD_ERROR' and o.rc == 128) or (o.ident == 'VALIDATION_ERROR' and '..' in instr)
    if not ok:
        res.violation(case, ['`%s`: a component of the name is an existing regular file: expected HARD_ERROR, got %s / %s' % (
            instr.replace('\n', ' ; '), o.ident, ' / '.join(cli.stderr_lines(o.err)[-2:])[:300])], {'file': text})
    return res


PESCAPE = ["dir d += {\n file lnk/escaped.txt = 'x'\n}", 'dir d += {\n dir lnk/newdir\n}', "dir d += {\n file lnk/sub/deep.txt = 'x'\n}",
           "dir d += {\n dir lnk = {\n  file inner.txt = 'x'\n }\n}", 'dir d += dir-contents-of -rel-home esrc']


def _pescape(res, case):
    instr = PESCAPE[case[1]]
    w = world.get()
    w.reset()
    seam = procseam.SEAM
    seam.reset()
    seam.default = {'exit': 0}
    w.write('esrc/lnk/from-src.txt', 'x')

    def hook(rec):
        if rec['name'] == 'mklinks':
            os.symlink('../outside', os.path.join(rec['cwd'], 'd', 'lnk'))

    seam.on_call = hook
    text = "[setup]\ndir outside\ndir d = {\n file a = 'pre-a'\n}\nrun % mklinks\n" + instr + '\n[act]\n'
    o = cli.run_case(text, args=['--keep'])
    ident = o.err.split('\n')[0]
    sds = o.out.strip()
    res.n += 1
    res.nontrivial += 1
    errs = []
    created = None
    if ident not in ('PASS', 'HARD_ERROR'):
        errs.append('expected PASS or HARD_ERROR, got %s / %s' % (ident, ' / '.join(cli.stderr_lines(o.err)[-3:])[:300]))
    if os.path.isdir(sds):
        created = sorted(disk_tree(os.path.join(sds, 'act', 'outside')))
        if created:
            errs.append('`%s` (d/lnk is a symbolic link to ../outside): created outside the populated directory: act/outside/%s' % (instr.replace('\n', ' '), created))
    res.outcomes[('Pescape', ident)] += 1
    if errs:
        hit = kf.classify_c15(instr, ident, created, errs)
        if hit:
            res.kf[hit] += 1
        else:
            res.violation(case, errs, {'file': text})
    return res


# file names around the table "File name parts" of `help syntax file-matcher` (every row of it, plus dot-files and names ending in a dot)
PART_NAMES = ['a.tar.gz', 'f.txt', 'f', 'f.', '.x.y', '.hidden', 'a..b', 'x.y.', 'UP.TXT']


def _names(res, case):
    """name / stem / suffixes / suffix of every NAME: the value of the documented rule matches, every other value of the family does not;
    as a matcher on the single file and as -selection over the directory."""
    _, kind, how = case
    w = world.get()
    seam = procseam.SEAM
    w.reset()
    seam.reset()
    for n in PART_NAMES:
        w.write('ah/root/' + n, '')
    idx = {'name': 0, 'stem': 1, 'suffixes': 2, 'suffix': 3}[kind]
    val = {n: T.name_parts(n)[idx] for n in PART_NAMES}
    values = sorted(set(val.values()))
    asserts = []
    if how == 'single':
        for n in PART_NAMES:
            for v in values:
                m = "%s ~ '^%s$'" % (kind, re.escape(v))
                asserts.append('exists -rel-act-home root/%s : %s%s' % (n, '' if val[n] == v else '! ', m))
            if val[n]:
                asserts.append("exists -rel-act-home root/%s : %s '%s'" % (n, kind, val[n].replace('[', '[[]')))
    else:
        for v in values:
            want = sorted(n for n in PART_NAMES if val[n] == v)
            m = "%s ~ '^%s$'" % (kind, re.escape(v))
            asserts.append('dir-contents -rel-act-home root : -selection %s matches -full {%s\n}' % (m, ''.join('\n  ' + n for n in want)))
            asserts.append('dir-contents -rel-act-home root : -selection ( ! %s ) num-files == %d' % (m, len(PART_NAMES) - len(want)))
    text = '[conf]\nact-home = ah\n[act]\n[assert]\n' + '\n'.join(asserts) + '\n'
    o = cli.run_case(text)
    res.n += len(asserts)
    res.nontrivial += 1
    res.outcomes[('Names', o.ident)] += 1
    if o.ident != 'PASS' or o.exc:
        res.violation(case, ['file-name part `%s` (%s): an assertion written from the documented table / rule did not pass: %s / %s' % (
            kind, how, o.ident, ' / '.join(cli.stderr_lines(o.err)[:8])[:600])], {'file': text[:400] + '...'})
    return res


def _ptop(res, case):
    links, instr, expected = PTOP[case[1]]
    w = world.get()
    w.reset()
    seam = procseam.SEAM
    seam.reset()
    seam.default = {'exit': 0}
    for sname, st in SRC.items():
        for p, n in st.items():
            if n[0] == 'f':
                w.write(sname + '/' + p, n[1])
            else:
                (w.home / sname / p).mkdir(parents=True, exist_ok=True)

    def hook(rec):
        if rec['name'] == 'mklinks':
            for name, target in links.items():
                os.symlink(target, os.path.join(rec['cwd'], 'd', name))

    seam.on_call = hook
    text = "[setup]\ndir d = {\n file a = 'pre-a'\n}\nrun % mklinks\n" + instr + '\n[act]\n'
    snap = world.snapshot_tree(w.home)
    o = cli.run_case(text, args=['--keep'])
    ident = o.err.split('\n')[0]
    sds = o.out.strip()
    res.n += 1
    res.nontrivial += 1
    errs = []
    if expected == 'error':
        if ident != 'HARD_ERROR':
            errs.append('`%s` onto a directory holding %s: the path exists (a symbolic link): expected HARD_ERROR, got %s' % (instr, links, ident))
    else:
        if ident != 'PASS':
            errs.append('expected PASS, got %s / %s' % (ident, ' / '.join(cli.stderr_lines(o.err)[-3:])[:300]))
        elif disk_tree(os.path.join(sds, 'act', 'd')) != expected:
            errs.append('tree on disk %s, expected %s' % (disk_tree(os.path.join(sds, 'act', 'd')), expected))
    if os.path.isdir(sds):
        outside = sorted(set(os.listdir(os.path.join(sds, 'act'))) - {'d'})
        if outside:
            errs.append('files were created outside the populated directory: act/%s' % outside)
    after = world.snapshot_tree(w.home)
    snap.pop('c.case', None)
    after.pop('c.case', None)
    if after != snap:
        errs.append('home directory changed')
    res.outcomes[('Ptop', ident)] += 1
    if errs:
        res.violation(case, errs, {'file': text})
    return res


# ------------------------------------------------------------------------------------------------
# Part M
# ------------------------------------------------------------------------------------------------
UNIVERSE = [
    ('a', ('f', '')), ('a', ('f', 'x\n')), ('a.txt', ('f', 'x\n')), ('.h', ('f', '')), ('b', ('d',)), ('d', ('d',)), ('d/a', ('f', '')), ('d/b.txt', ('f', 'x\n')),
    ('d/e', ('d',)), ('d/e/a', ('f', 'x\n')), ('ls', ('l', 'a')), ('ld', ('l', 'd')), ('dangling', ('l', 'nowhere')), ('d/l', ('l', '../a')),
]


def trees(tier):
    n = 4 if tier == 'quick' else 5
    out = []
    for k in range(0, n + 1):
        for combo in itertools.combinations(range(len(UNIVERSE)), k):
            t = {}
            ok = True
            for i in combo:
                p, node = UNIVERSE[i]
                if p in t:
                    ok = False
                    break
                t[p] = node
            if not ok:
                continue
            # parents must be present as directories
            for p in list(t):
                par = p.rsplit('/', 1)[0] if '/' in p else None
                if par is not None and (par not in t or t[par][0] != 'd'):
                    ok = False
            if ok:
                out.append(t)
    return out


def _options():
    out = [{}]
    for lo in (None, 0, 1, 2, 3):
        for hi in (None, 0, 1, 2, 3):
            o = {'recursive': True}
            if lo is not None:
                o['min_depth'] = lo
            if hi is not None:
                o['max_depth'] = hi
            out.append(o)
    return out


# the direct model + the full square of (min-depth, max-depth) in {absent, 0..3}^2: equal limits (one level), min > max (empty interval), limits beyond the tree
OPTIONS = _options()
QUICK_OPTIONS = [i for i, o in enumerate(OPTIONS) if o.get('min_depth', 0) <= 2 and o.get('max_depth', 0) <= 2]

G = lambda s: ('glob', s)
RX = lambda s: ('rx', s)
FMS = [('type', 'file'), ('type', 'dir'), ('type', 'symlink'), ('name', G('a')), ('name', G('a*')), ('name', RX('^a')), ('name', G('*.txt')), ('stem', G('a')), ('stem', RX('^$')),
       ('suffix', G('.txt')), ('suffixes', RX('h$')), ('const', True), ('not', ('type', 'dir')), ('and', [('type', 'file'), ('contents-empty',)]),
       ('and', [('type', 'dir'), ('dir-contents', {}, ('empty',))]), ('and', [('type', 'dir'), ('dir-contents', {'recursive': True}, ('num', '>=', 2))]),
       ('or', [('name', G('b')), ('suffix', G('.txt'))]),
       # ONE `matches` (not -full) matcher applied to several directories in turn (each application starts from the full list of expected names)
       ('and', [('type', 'dir'), ('dir-contents', {}, ('matches', False, [('a', None), ('e', None)]))]),
       ('and', [('type', 'dir'), ('dir-contents', {}, ('matches', False, [('a', ('type', 'file'))]))]),
       ('or', [('not', ('type', 'dir')), ('dir-contents', {}, ('matches', False, [('a', None), ('e', ('type', 'dir'))]))])]


def fsms(tier):
    out = [('empty',), ('not', ('empty',))]
    for op in ('==', '>=', '<'):
        for k in (0, 1, 2, 3, 4):
            out.append(('num', op, k))
    for fm in FMS:
        out += [('every', fm), ('any', fm)]
    conds = [[('a', None)], [('a', ('type', 'file'))], [('a', None), ('d', ('type', 'dir'))], [('d/a', None)], [('d', None), ('d/a', None)], [('a.txt', ('name', G('*.txt')))],
             [('nofile', None)], [], [('a', ('type', 'file')), ('a', ('and', [('type', 'file'), ('contents-empty',)]))], [('d/e/a', None)], [('ld', ('type', 'dir'))], [('dangling', ('type', 'symlink'))],
             [('ld/a', None)], [('b', ('type', 'dir'))],
             # one name several times, with and without matcher, in both orders (the matchers of one name are combined with &&)
             [('a', ('type', 'dir')), ('a', None)], [('a', None), ('a', ('type', 'dir'))], [('d', ('type', 'file')), ('d', None), ('a', None)],
             [('a', ('type', 'file')), ('a', None), ('a', ('contents-empty',))]]
    for c in conds:
        out += [('matches', False, c), ('matches', True, c)]
    sels = [('type', 'file'), ('type', 'dir'), ('name', G('a*')), ('const', False), ('type', 'symlink'), FMS[-3], FMS[-2]]
    inner = [('empty',), ('num', '==', 1), ('num', '>=', 2), ('every', ('type', 'file')), ('matches', True, [('a', None)]), ('any', ('name', G('a')))]
    for s_ in sels:
        for i_ in inner:
            out.append(('selection', s_, i_))
    # nested selections: the inner file-matcher is only applied to files the outer selection lets through (it may be undefined for the others:
    # `contents` of a directory, `dir-contents` of a regular file are hard errors)
    for i_ in inner[:4] + [('num', '==', 0), ('num', '==', 2)]:
        out.append(('selection', ('type', 'file'), ('selection', ('contents-empty',), i_)))
        out.append(('selection', ('type', 'dir'), ('selection', ('dir-contents', {}, ('empty',)), i_)))
        out.append(('selection', ('type', 'file'), ('selection', ('name', G('a*')), ('selection', ('contents-empty',), i_))))
    prunes = [('name', G('d')), ('name', G('e')), ('const', True), ('type', 'symlink'), ('name', G('b'))]
    for p in prunes:
        for i_ in inner + [('num', '==', 3), ('any', ('name', G('b.txt')))]:
            out.append(('pruned', p, i_))
    out += [('pruned', ('name', G('d')), ('pruned', ('name', G('ld')), ('num', '==', k))) for k in (1, 2, 3, 4)]
    out += [('pruned', ('name', G('e')), ('pruned', ('name', G('ld')), ('any', ('name', G('a')))))]
    out += [('pruned', ('name', G('d')), ('selection', ('type', 'file'), ('num', '==', k))) for k in (0, 1, 2)]
    out += [('and', [('num', '>=', 1), ('any', ('type', 'dir'))]), ('or', [('empty',), ('every', ('type', 'file'))]), ('not', ('any', ('type', 'symlink')))]
    return out


def render_pat(p):
    return "'%s'" % p[1] if p[0] == 'glob' else "~ '%s'" % p[1]


def render_fm(fm, simple=True):
    k = fm[0]
    if k == 'const':
        return 'constant ' + ('true' if fm[1] else 'false')
    if k == 'not':
        return '! ' + render_fm(fm[1])
    if k in ('and', 'or'):
        s = (' && ' if k == 'and' else ' || ').join(render_fm(x) for x in fm[1])
        return '( ' + s + ' )'
    if k == 'type':
        return 'type ' + fm[1]
    if k in ('name', 'stem', 'suffix', 'suffixes'):
        return k + ' ' + render_pat(fm[1])
    if k == 'contents-empty':
        return 'contents is-empty'
    if k == 'dir-contents':
        return 'dir-contents ' + render_opts(fm[1]) + render_fsm(fm[2])
    raise ValueError(fm)


def render_opts(o):
    s = ''
    if o.get('recursive'):
        s += '-recursive '
        if 'min_depth' in o:
            s += '-min-depth %d ' % o['min_depth']
        if 'max_depth' in o:
            s += '-max-depth %d ' % o['max_depth']
    return s


def render_fsm(m):
    k = m[0]
    if k == 'const':
        return 'constant ' + ('true' if m[1] else 'false')
    if k == 'not':
        return '! ' + render_fsm(m[1])
    if k in ('and', 'or'):
        return '( ' + (' && ' if k == 'and' else ' || ').join(render_fsm(x) for x in m[1]) + ' )'
    if k == 'empty':
        return 'is-empty'
    if k == 'num':
        return 'num-files %s %d' % (m[1], m[2])
    if k in ('every', 'any'):
        return '%s file : %s' % (k, render_fm(m[1]))
    if k == 'matches':
        conds = ' '.join('\n   %s%s' % (n, '' if fm is None else ' : ' + render_fm(fm)) for n, fm in m[2])
        return 'matches %s{%s\n }' % ('-full ' if m[1] else '', conds)
    if k == 'selection':
        return '-selection %s %s' % (render_fm(m[1]), render_fsm(m[2]))
    if k == 'pruned':
        return '-with-pruned %s %s' % (render_fm(m[1]), render_fsm(m[2]))
    raise ValueError(m)


def make_tree(base, t):
    for p in sorted(t):
        n = t[p]
        full = os.path.join(base, p)
        if n[0] == 'd':
            os.makedirs(full, exist_ok=True)
        elif n[0] == 'f':
            os.makedirs(os.path.dirname(full), exist_ok=True)
            with open(full, 'w') as f:
                f.write(n[1])
        else:
            os.makedirs(os.path.dirname(full), exist_ok=True)
            os.symlink(n[1], full)


def _match(res, case):
    _, ti, oi = case
    t = _T['trees'][ti]
    opts = OPTIONS[oi]
    w = world.get()
    seam = procseam.SEAM
    ms = _T['fsms']
    B = 80
    partial = False
    for i in range(0, len(ms), B):
        w.reset()
        seam.reset()
        make_tree(str(w.home / 'ah' / 'root'), t)
        os.makedirs(str(w.home / 'ah' / 'root'), exist_ok=True)
        asserts = []
        batch = []
        for m in ms[i:i + B]:
            try:
                exp = T.ev_fsm(m, t, '', **opts)
            except NotImplementedError:
                continue
            src = render_fsm(m)
            if not exp:
                src = '! ( %s )' % src if m[0] not in ('matches',) else '! %s' % src
            asserts.append('dir-contents -rel-act-home root : %s%s' % (render_opts(opts), src))
            batch.append((m, exp))
        text = '[conf]\nact-home = ah\n[act]\n[assert]\n' + '\n'.join(asserts) + '\n'
        o = cli.run_case(text)
        res.n += len(batch)
        res.outcomes[('M', o.ident)] += 1
        if o.ident != 'PASS' or o.exc:
            # locate the failing assertion from the report
            res.violation(case, ['tree %s, options %s: an assertion written in the polarity the documented definition gives did not pass: %s / %s' % (
                t, opts, o.ident, ' / '.join(cli.stderr_lines(o.err)[:6])[:500])], {'file': text[:200] + '...'})
    for m in ms:
        try:
            if T.ev_fsm(m, t, '') != T.ev_fsm(m, t, '', **opts):
                partial = True
                break
        except NotImplementedError:
            pass
    if partial:
        res.nontrivial += 1
    if not res.samples and len(t) == 4 and opts == {'recursive': True}:
        res.samples.append({'tree': {k: list(v) for k, v in t.items()}, 'options': opts, 'assertion': asserts[-1]})
    return res
