"""C09 — string syntax: quoting, concatenation, here-documents denote one exact string (DESIGN §3 C09).

Denotation-first generator: a string is 1..3 adjacent fragments (naked / soft-quoted / hard-quoted); its denotation is the
concatenation of the fragment contents with @[S]@ substituted everywhere except inside hard quotes.  Observed: the argument vector
of `run % probe SRC NEXT` (token boundaries), the contents of `file f = SRC`, list elements of `def list`, here-documents, `:>`.
"""
import itertools
import os

from mc import world, procseam, cli, kf
from mc.result import Result

PROPERTY = 'C09'
LEVEL = 'exploration'
CASE_GUARD_S = {'quick': 300, 'thorough': 3600}  # a case is a composite (a block of expressions x all texts, ...)
CHUNK = 40
RULE = ('tokens referring to a LIST symbol (13 forms: naked / soft / hard / combined, empty and one-element lists) as program argument, list element, file contents; strings of 1..3 adjacent fragments (form naked/soft/hard x content from a 17-element family over {a, space, both quote characters, @[S]@, @[, ]@, '
        'an ill-formed reference, #, backslash, non-ASCII, =, :, (, option-like, <<, :>}) x follower {end of line, end of file, a second argument, `)`, list continuation} x '
        'context {program argument, file contents, list element}; every splitting of fixed strings into differently quoted fragments; text-until-end-of-line forms; here-documents: '
        '3 markers x bodies of <= 3 lines over 8 line kinds x {terminated, terminator last without newline, missing terminator}; unterminated quotes at every position; '
        'non-trivial = the string needs quoting, concatenation or substitution (it is not one plain word)')
ASSUMPTIONS = [
    'S is a string symbol with value VAL; denotation is known by construction',
    'a naked string that is exactly a reserved word, or starts with <<, :> or - in first position of an argument list, is a different documented form and is not generated as naked',
]

SVAL = 'VAL'
NAKED = ['&', '|', '=', '(', ':', '!', '{', 'a', 'a#b', '#', 'a\\b', 'é', 'a=b', 'a:b', 'a(b', 'x-y', '@[S]@', 'pre@[S]@', '@[', ']@', '@[no/sym]@', 'a@[S]@@[S]@', '\\', 'a#',
         # characters str.isspace() accepts but the tokenizer does not split at: they are ordinary characters of a word, wherever the word stands
         '\u3000', '\xa0', 'a\u3000', '\x0c',
         # an opener `@[` that is not completed, directly followed (after zero or more name characters) by a real reference
         '@[@[S]@', 'x@[y_1@[S]@z']
SOFT = ['&', '|', 'a', 'a b', ' ', '', "it's", '@[S]@', 'x @[S]@ y', '#', 'a#b', '\\', '(', '=', '-x', '<<EOF', ':> t', 'é', '@[', ']@ @[', '&&',
        # quoted, the word of an OPTION that is accepted at the position is a string like any other
        '-existing-file', '-contents-of', '-python', '@[@[S]@', '<@[_@[S]@>', '@[S@[S]@@[']
HARD = ['&', '|', 'a', 'a b', ' ', '', 'say "hi"', '@[S]@', 'x @[S]@ y', '#', 'a #b', '\\', ')', ':', '--x', '<<', ':>', 'é', '||', '-existing-path', '-stdout-from', '-stdin', '-ignore-exit-code']


def den(form, content):
    return content if form == 'hard' else content.replace('@[S]@', SVAL)


def src(form, content):
    return content if form == 'naked' else ('"%s"' % content if form == 'soft' else "'%s'" % content)


def fragments():
    fs = [('naked', c) for c in NAKED] + [('soft', c) for c in SOFT] + [('hard', c) for c in HARD]
    return fs


def strings(tier):
    fs = fragments()
    out = [[f] for f in fs]
    core = [('naked', '&'), ('naked', '|'), ('naked', '='), ('naked', '('), ('naked', 'a'), ('naked', '@[S]@'), ('naked', 'a#b'), ('soft', 'a b'), ('soft', '@[S]@'), ('soft', ''), ('hard', 'a b'), ('hard', '@[S]@'), ('hard', ''),
            ('hard', 'say "hi"'), ('soft', "it's"), ('naked', '\\'), ('naked', 'é')]
    for a in core:
        for b in fs:
            out.append([a, b])
            if b not in core:
                out.append([b, a])
    tri = [('naked', 'a'), ('naked', '@[S]@'), ('soft', 'x @[S]@ y'), ('hard', '@[S]@'), ('hard', 'a b'), ('soft', '')]
    for a in tri:
        for b in tri:
            for c in tri:
                out.append([a, b, c])
    if tier == 'thorough':
        for a in fs:
            for b in fs:
                if [a, b] not in out:
                    out.append([a, b])
    # two adjacent naked fragments are one naked fragment: skip splittings that only differ there
    res, seen = [], set()
    for s_ in out:
        text = ''.join(src(f, c) for f, c in s_)
        if any(s_[i][0] == 'naked' and s_[i + 1][0] == 'naked' for i in range(len(s_) - 1)):
            continue
        if text in seen:
            continue
        seen.add(text)
        res.append(s_)
    return res


RESERVED = {'(', ')', '[', ']', '{', '}', '=', '|', ':', '!', '&&', '||'}


def expressible(s_, first_in_list):
    text = ''.join(src(f, c) for f, c in s_)
    if s_[0][0] == 'naked':
        if text in RESERVED or text.startswith('<<') or text.startswith(':>'):
            return False
        if text.startswith('-'):
            return False
    if all(f == 'naked' for f, _ in s_) and text in RESERVED:
        return False
    if any(f == 'naked' and c in RESERVED for f, c in s_):
        return False  # a naked fragment that is itself a reserved word (e.g. `(""`): the manual requires reserved words to be quoted
    return True


FOLLOWERS = ('eol', 'eof', 'arg', 'paren', 'continuation')
CONTEXTS = ('argv', 'file', 'list')

HD_LINES = ['text', '', '# c', '[assert]', 'EOF ', ' EOF', 'EOFX', '@[S]@', "don't stop", '5" disk']
HD_MARKERS = ['EOF', '-', 'E-F']

SPLIT_STRINGS = ['a b', "it's @[S]@", 'x@[S]@y z']


def splittings(s):
    """Every way of writing s as adjacent soft/hard fragments cut at every position (references kept inside soft quotes)."""
    out = []
    n = len(s)
    for cuts in range(0, 1 << max(0, n - 1)):
        parts, start = [], 0
        for i in range(1, n):
            if cuts >> (i - 1) & 1:
                parts.append(s[start:i])
                start = i
        parts.append(s[start:])
        if any(('@[' in p or ']@' in p or p.startswith('[') or p.endswith('@') or p.startswith('S]') or p.endswith('@[S')) and '@[S]@' not in p for p in parts if set(p) & set('@[]S')):
            continue  # do not cut through the reference
        if len(parts) > 4:
            continue
        for forms in itertools.product(('soft', 'hard'), repeat=len(parts)):
            if any(f == 'hard' and "'" in p for f, p in zip(forms, parts)):
                continue
            if any(f == 'hard' and '@[S]@' in p for f, p in zip(forms, parts)):
                continue  # would change the denotation by definition
            out.append(list(zip(forms, parts)))
    return out


_T = {}


def prepare(tier):
    cli.main_program()
    procseam.install()
    _T['strings'] = strings(tier)
    _T['tier'] = tier


def cases(tier):
    n = len(strings(tier))
    for ctx in CONTEXTS:
        for fol in FOLLOWERS:
            for i in range(0, n, 8):
                yield ('str', ctx, fol, i, min(i + 8, n))
    for si in range(len(SPLIT_STRINGS)):
        yield ('split', si)
    for mi in range(len(HD_MARKERS)):
        for k in range(0, 4):
            for body in itertools.product(range(len(HD_LINES)), repeat=k):
                if k == 3 and tier == 'quick' and body[0] > 3:
                    continue
                yield ('here', mi, body)
    for i in range(len(RICH)):
        yield ('rich', i)
    yield ('unterminated',)
    for i in range(len(LISTREF)):
        for ctx in ('argv', 'list', 'file'):
            yield ('listref', i, ctx)
    for i in range(len(UNINAME)):
        yield ('uniname', i)
    for i in range(len(MARKER_LIKE)):
        for ctx in ('argv', 'def', 'rich'):
            yield ('marker-like', i, ctx)


# words that only BEGIN like a marker: `<<WORD` whose WORD is more than marker characters, `:>` glued to more text
MARKER_LIKE = ['<<EOF.txt', '<<EOF!', '<<EOF:x', '<<EOF@[S]@', ':>abc', ':>>', ':>:>', ':>EOF']


def _marker_like(res, case):
    """`<<EOF.txt` is not the here-document marker EOF followed by something that can be dropped; `:>abc` is not the marker `:>`.
    Accepted readings: a syntax error at the instruction, or the word as one plain string - never a here-document ended by `EOF` / text that
    swallows the following arguments."""
    _, i, ctx = case
    tok = MARKER_LIKE[i]
    pre = "[setup]\ndef string S = '%s'\n" % SVAL
    tail = 'line-two\nEOF\n' if tok.startswith('<<') else ''
    if ctx == 'argv':
        text = pre + 'run %% probe first %s next\n%s[act]\n' % (tok, tail)
    elif ctx == 'rich':
        # a position where here-documents and text-until-end-of-line ARE allowed (the word is alone on its line)
        text = pre + 'def string X = %s\n%s' % (tok, tail) + 'run % probe first @[X]@ next\n[act]\n'
    else:
        text = pre + 'def list X = %s next\n%srun %% probe first @[X]@\n[act]\n' % (tok, tail)
    o, calls = _run_case(text)
    pc = [c for c in calls if c['name'] == 'probe']
    got = pc[0]['args'][1:] if pc else None
    den = tok.replace('@[S]@', SVAL)
    res.n += 1
    res.nontrivial += 1
    res.outcomes[('marker-like', ctx, o.ident)] += 1
    ok = (o.ident == 'SYNTAX_ERROR' and o.rc == 65 and not pc)
    if not tail and o.ident == 'PASS' and got == ['first', den, 'next']:
        ok = True
    if not ok:
        res.violation(case, ['%s: `%s next` followed by the lines `line-two` and `EOF`: the word is not a marker: expected a syntax error (or the plain word %r); got %s, probe arguments %r / %s' % (
            ctx, tok, den, o.ident, got, ' / '.join(cli.stderr_lines(o.err)[-3:])[:300])], {'file': text})


def run(case) -> Result:
    res = Result()
    k = case[0]
    if k == 'marker-like':
        _marker_like(res, case)
        return res
    if k == 'str':
        _, ctx, fol, a, b = case
        for s_ in _T['strings'][a:b]:
            _one(res, ctx, fol, s_)
    elif k == 'one':
        _one(res, case[1], case[2], [tuple(x) for x in case[3]])
    elif k == 'split':
        for s_ in splittings(SPLIT_STRINGS[case[1]]):
            for ctx in ('argv', 'file'):
                _one(res, ctx, 'arg' if ctx == 'argv' else 'eol', s_)
    elif k == 'here':
        _here(res, case)
    elif k == 'rich':
        _rich(res, case)
    elif k == 'unterminated':
        _unterminated(res, case)
    elif k == 'listref':
        _listref(res, case)
    elif k == 'uniname':
        _uniname(res, case)
    return res


# a token that refers to a LIST symbol: only the naked token that is nothing but the reference is spliced element by element;
# quoted or combined with anything else it is ONE string (elements joined by single spaces); hard quotes do not substitute
#   (source token, elements it contributes to an argument list / list, or None if it contributes a single string given by [2], single string)
# references to symbols whose names have letters of other scripts, in every string form (source, denotation)
UNINAME = [
    ('@[\u00e9]@', 'VAL'), ('"x @[gr\u00f6\u00dfe2]@ y"', 'x VAL y'), ('pre@[\u540d\u524d]@post', 'preVALpost'), ("'@[\u00e9]@'", '@[\u00e9]@'),
    ('@[\u00e9]@@[x\u0663]@', 'VALVAL'), ('"@[\u00e9]@"\'@[\u00e9]@\'', None), (':> a @[\u00e9]@ b', 'a VAL b'), ('<<EOF\nline @[gr\u00f6\u00dfe2]@\nEOF', 'line VAL\n'),
    ('"@[\u00e9 \u00e9]@"', '@[\u00e9 \u00e9]@'), ('@[\u00e9', '@[\u00e9'),
]


LISTREF = [
    ('@[LST]@', ['e1', 'e 2'], 'e1 e 2'),
    ('"@[LST]@"', None, 'e1 e 2'),
    ("'@[LST]@'", None, '@[LST]@'),
    ('"-@[LST]@"', None, '-e1 e 2'),
    ('-@[LST]@', None, '-e1 e 2'),
    ('@[LST]@@[LST]@', None, 'e1 e 2e1 e 2'),
    ('"@[LST]@ @[S]@"', None, 'e1 e 2 VAL'),
    ('@[NOL]@', [], ''),
    ('"@[NOL]@"', None, ''),
    ('"@[ONE]@"', None, 'only'),
    ('@[ONE]@', ['only'], 'only'),
    ('"@[LL]@"', None, 'e1 e 2 z'),
    ('@[LL]@', ['e1', 'e 2', 'z'], 'e1 e 2 z'),
]


def _uniname(res, case):
    tok, den = UNINAME[case[1]]
    if den is None:
        return  # (mixed quoting: KF-C09-QUOTE)
    pre = "[setup]\ndef string \u00e9 = VAL\ndef string gr\u00f6\u00dfe2 = VAL\ndef string \u540d\u524d = VAL\ndef string x\u0663 = VAL\n"
    seen = {}

    def hook(rec):
        if rec['name'] == 'reader':
            try:
                with open(os.path.join(rec['cwd'], 'f.txt'), newline='') as f:
                    seen['text'] = f.read()
            except OSError as ex:
                seen['text'] = 'ERR %s' % ex

    case_ = pre + 'file f.txt = %s\nrun %% reader\n[act]\n' % tok
    o, calls = _run_case(case_, hook)
    got = seen.get('text')
    res.n += 1
    res.nontrivial += 1
    res.outcomes[('uniname', o.ident)] += 1
    if o.ident != 'PASS' or got != den:
        res.violation(case, ['the string `%s` (symbols with names in other scripts, each with value VAL) denotes %r; the file holds %r, outcome %s / %s' % (
            tok.replace('\n', '<NL>'), den, got, o.ident, ' / '.join(cli.stderr_lines(o.err)[-3:])[:300])], {'file': case_})


def _listref(res, case):
    _, i, ctx = case
    tok, elems, one = LISTREF[i]
    pre = "[setup]\ndef string S = 'VAL'\ndef list LST = e1 'e 2'\ndef list NOL =\ndef list ONE = only\ndef list LL = @[LST]@ z\n"
    seen = {}

    def hook(rec):
        if rec['name'] == 'reader':
            try:
                with open(os.path.join(rec['cwd'], 'f.txt'), newline='') as f:
                    seen['text'] = f.read()
            except OSError as ex:
                seen['text'] = 'ERR %s' % ex

    contrib = elems if elems is not None else [one]
    if ctx == 'file' and elems is not None:
        # a naked token that is nothing but a reference is, as a TEXT-SOURCE, a reference to a text-source / string symbol: a list is a type error (C08)
        res.stats['not a string in this context'] += 1
        return
    if ctx == 'argv':
        case_ = pre + 'run %% probe first %s last\n[act]\n' % tok
        want = ['first'] + contrib + ['last']
    elif ctx == 'list':
        case_ = pre + 'def list Q = first %s last\nrun %% probe @[Q]@\n[act]\n' % tok
        want = ['first'] + contrib + ['last']
    else:
        case_ = pre + 'file f.txt = %s\nrun %% reader\n[act]\n' % tok
        want = one
    o, calls = _run_case(case_, hook)
    if ctx == 'file':
        got = seen.get('text')
    else:
        pc = [c for c in calls if c['name'] == 'probe']
        got = pc[0]['args'][1:] if pc else None
    res.n += 1
    res.nontrivial += 1
    res.outcomes[('listref', ctx, o.ident)] += 1
    if o.ident != 'PASS' or got != want:
        res.violation(case, ['%s: the token `%s` (LST = e1 \'e 2\', NOL empty, ONE = only, LL = @[LST]@ z) denotes %r; observed %r, outcome %s / %s' % (
            ctx, tok, want, got, o.ident, ' / '.join(cli.stderr_lines(o.err)[-3:])[:300])], {'file': case_})


def _run_case(text, hook=None):
    w = world.get()
    w.reset()
    seam = procseam.SEAM
    seam.reset()
    seam.default = {'exit': 0}
    seam.on_call = hook
    o = cli.run_case(text)
    return o, seam.calls


def _one(res, ctx, fol, s_):
    text = ''.join(src(f, c) for f, c in s_)
    if not expressible(s_, True):
        res.stats['not expressible as this form'] += 1
        return
    if text == '\\' and fol in ('eol', 'eof') and ctx in ('argv', 'list'):
        res.stats['not expressible as this form'] += 1
        return  # an unquoted backslash at the end of the line is the documented list continuation
    d = ''.join(den(f, c) for f, c in s_)
    one = ('one', ctx, fol, s_)
    pre = "[setup]\ndef string S = '%s'\n" % SVAL
    got = None
    if ctx == 'argv':
        if fol == 'eol':
            case_ = pre + 'run %% probe first %s\n[act]\n' % text
            want = ['first', d]
        elif fol == 'eof':
            case_ = '[act]\n[setup]\n' + "def string S = '%s'\n" % SVAL + 'run %% probe first %s' % text
            want = ['first', d]
        elif fol == 'arg':
            case_ = pre + 'run %% probe %s next "last one"\n[act]\n' % text
            want = [d, 'next', 'last one']
        elif fol == 'paren':
            case_ = pre + "file m.txt = 'x'\n[act]\n[assert]\ncontents m.txt : ( run %% probe first %s )\n" % text
            want = ['first', d]
        else:
            case_ = pre + 'run %% probe first %s \\\n    next\n[act]\n' % text
            want = ['first', d, 'next']
        o, calls = _run_case(case_)
        pc = [c for c in calls if c['name'] == 'probe']
        got = pc[0]['args'][1:] if pc else None
        ok = o.ident == 'PASS' and got == want
    elif ctx == 'file':
        if fol not in ('eol', 'eof'):
            return
        seen = {}

        def hook(rec):
            if rec['name'] == 'reader':
                try:
                    with open(os.path.join(rec['cwd'], 'f.txt'), newline='') as f:
                        seen['text'] = f.read()
                except OSError as ex:
                    seen['text'] = 'ERR %s' % ex

        if fol == 'eol':
            case_ = pre + 'file f.txt = %s\nrun %% reader\n[act]\n' % text
        else:
            case_ = '[cleanup]\nrun % reader\n[setup]\n' + "def string S = '%s'\n" % SVAL + 'file f.txt = %s' % text
        o, calls = _run_case(case_, hook)
        got = seen.get('text')
        want = d
        ok = o.ident == 'PASS' and got == want
    else:
        if fol in ('paren',):
            return
        if fol == 'eol':
            case_ = pre + 'def list L = first %s\nrun %% probe @[L]@\n[act]\n' % text
            want = ['first', d]
        elif fol == 'eof':
            case_ = '[cleanup]\nrun % probe @[L]@\n[setup]\n' + "def string S = '%s'\n" % SVAL + 'def list L = first %s' % text
            want = ['first', d]
        elif fol == 'arg':
            case_ = pre + 'def list L = %s next\nrun %% probe @[L]@\n[act]\n' % text
            want = [d, 'next']
        else:
            case_ = pre + 'def list L = %s \\\n   next\nrun %% probe @[L]@\n[act]\n' % text
            want = [d, 'next']
        o, calls = _run_case(case_)
        pc = [c for c in calls if c['name'] == 'probe']
        got = pc[0]['args'][1:] if pc else None
        ok = o.ident == 'PASS' and got == want
    res.n += 1
    res.outcomes[(ctx, fol, o.ident)] += 1
    if len(s_) > 1 or s_[0][0] != 'naked' or '@[S]@' in s_[0][1]:
        res.nontrivial += 1
    if not res.samples and len(s_) == 3:
        res.samples.append({'source': text, 'fragments': s_, 'denotes': d, 'context': ctx, 'follower': fol, 'observed': got})
    if not ok:
        msg = ['%s (%s, follower %s): source `%s` denotes %r; observed %r, outcome %s / %s' % (
            ctx, '+'.join(f for f, _ in s_), fol, text, want, got, o.ident, ' / '.join(cli.stderr_lines(o.err)[-3:])[:300])]
        hit = kf.classify_c09(s_, ctx, fol, want, got, o.ident)
        if hit:
            res.kf[hit] += 1
        else:
            res.violation(one, msg, {'file': case_})


def _here(res, case):
    _, mi, body = case
    marker = HD_MARKERS[mi]
    lines = [HD_LINES[i].replace('EOF', marker) for i in body]
    d = ''.join(l.replace('@[S]@', SVAL) + '\n' for l in lines)
    seen = {}

    def hook(rec):
        if rec['name'] == 'reader':
            try:
                with open(os.path.join(rec['cwd'], 'f.txt'), newline='') as f:
                    seen['text'] = f.read()
            except OSError as ex:
                seen['text'] = 'ERR %s' % ex

    pre = "[setup]\ndef string S = '%s'\n" % SVAL
    for variant in ('terminated', 'terminator-last-no-newline', 'missing-terminator', 'continued', 'continued-no-final-newline'):
        hd = 'file f.txt = <<%s\n' % marker + ''.join(l + '\n' for l in lines)
        if variant == 'terminated':
            case_ = pre + hd + marker + '\nrun % reader\n[act]\n'
        elif variant.startswith('continued'):
            # the instruction goes on after the here-document (optional transformation on the next line), and a later instruction holds a lone
            # quote character in a text-until-end-of-line; the file ends with / without a final new-line
            case_ = '[cleanup]\nrun % reader\n' + pre + hd + marker + "\n   -transformed-by char-case -to-upper\nfile g.txt = :> it's" + ('\n' if variant == 'continued' else '')
        elif variant == 'terminator-last-no-newline':
            case_ = '[cleanup]\nrun % reader\n' + pre + hd + marker
        else:
            case_ = pre + hd + '[act]\n' if '[assert]' not in lines else pre + hd
        seen.clear()
        o, calls = _run_case(case_, hook)
        res.n += 1
        res.outcomes[('here', variant, o.ident)] += 1
        if variant == 'missing-terminator':
            if o.ident != 'SYNTAX_ERROR' or o.rc != 65:
                res.violation(case, ['here-document without terminator (marker %s, body %r): expected SYNTAX_ERROR, got %s' % (marker, lines, o.ident)], {'file': case_})
            elif 'line 3' not in o.err or ('file f.txt = <<%s' % marker) not in o.err:
                res.violation(case, ['here-document without terminator: the error report does not name the instruction (line 3, `file f.txt = <<%s`): %r' % (marker, o.err[:400])], {'file': case_})
        else:
            dd = d.upper() if variant.startswith('continued') else d
            if o.ident != 'PASS' or seen.get('text') != dd:
                res.violation(case, ['here-document <<%s with body lines %r (%s) denotes %r; file holds %r, outcome %s / %s' % (
                    marker, lines, variant, dd, seen.get('text'), o.ident, ' / '.join(cli.stderr_lines(o.err)[-3:])[:300])], {'file': case_})
    res.nontrivial += 1


RICH = [
    (':> a  b @[S]@ \'q\' ', "a  b VAL 'q'"),
    (':>   lead and trail   ', 'lead and trail'),
    (':> # not a comment', '# not a comment'),
    (':> "soft" \'hard @[S]@\'', '"soft" \'hard VAL\''),
    (':>x', None),
    (':> ( ) = : ! && ||', '( ) = : ! && ||'),
    (':> <<EOF', '<<EOF'),
    (':> é @[S]@@[S]@', 'é VALVAL'),
    (':> \\', '\\'),
    (":> it's here", "it's here"),
    (":> 'tis", "'tis"),
    (':> 5" disk @[S]@', '5" disk VAL'),
    (":> well, it's fine", "well, it's fine"),
    (':> "unbalanced', '"unbalanced'),
]


def _rich(res, case):
    srcs, d = RICH[case[1]]
    if d is None:
        return
    pre = "[setup]\ndef string S = '%s'\n" % SVAL
    seen = {}

    def hook(rec):
        if rec['name'] == 'reader':
            with open(os.path.join(rec['cwd'], 'f.txt'), newline='') as f:
                seen['text'] = f.read()

    case_ = pre + 'file f.txt = %s\nrun %% reader\nrun %% probe a %s\nrun %% after\n[act]\n' % (srcs, srcs)
    o, calls = _run_case(case_, hook)
    res.n += 1
    res.nontrivial += 1
    pc = [c for c in calls if c['name'] == 'probe']
    got = pc[0]['args'][1:] if pc else None
    errs = []
    if o.ident != 'PASS':
        errs.append('outcome %s / %s' % (o.ident, ' / '.join(cli.stderr_lines(o.err)[-3:])[:300]))
    if seen.get('text') != d:
        errs.append('`file f.txt = %s` holds %r, the text until end of line denotes %r' % (srcs, seen.get('text'), d))
    if got != ['a', d]:
        errs.append('`run %% probe a %s` gets %r, denoted %r' % (srcs, got, ['a', d]))
    if not [c for c in calls if c['name'] == 'after']:
        errs.append('the instruction on the following line did not run (swallowed?)')
    res.outcomes[('rich', o.ident)] += 1
    if errs:
        res.violation(case, errs, {'file': case_})


def _unterminated(res, case):
    """An unterminated quote at every position of an argument list is a syntax error reported at the instruction that contains it."""
    words = ['a', '"b c"', "'d'", '@[S]@']
    pre = "[setup]\ndef string S = '%s'\nrun %% before\n" % SVAL
    for q in ('"', "'"):
        for pos in range(len(words) + 1):
            for glued in (False, True):
                ws = list(words)
                if glued and pos < len(ws):
                    ws[pos] = q + ws[pos].strip('"\'')
                elif glued:
                    continue
                else:
                    ws.insert(pos, q + 'open')
                line = 'run % probe ' + ' '.join(ws)
                case_ = pre + line + '\nrun % after\n[act]\n% atc\n'
                o, calls = _run_case(case_)
                res.n += 1
                res.nontrivial += 1
                res.outcomes[('unterminated', o.ident)] += 1
                errs = []
                if o.ident != 'SYNTAX_ERROR' or o.rc != 65:
                    errs.append('`%s`: expected SYNTAX_ERROR, got %s' % (line, o.ident))
                else:
                    if 'line 4' not in o.err or line not in o.err:
                        errs.append('`%s`: the error report does not name the instruction (line 4): %r' % (line, o.err[:300]))
                if calls:
                    errs.append('processes were started: %s' % [c['args'] for c in calls])
                if errs:
                    res.violation(case, errs, {'file': case_})
