"""C02 — outcome table (DESIGN §3 C02).  Seam S-CLI + S-PROC (virtual action to check).

Oracle transcribed from `exactly help case spec` > Outcome and `exactly --help` (--keep, --act).
"""
import os

from mc import world, procseam, cli, stubprog
from mc.result import Result

PROPERTY = 'C02'
LEVEL = 'exploration'
CHUNK = 150
RULE = ('cases = configured status {unset,PASS,FAIL,SKIP} x way of ending (28 endings: pass, failing assertion, hard/internal '
        'error in each phase and step, validation errors, syntax errors, file access, preprocessor) x exit code of the action x '
        'output of the action {none,stdout,stderr,both} x output mode {normal,--keep,--act}, plus an invalid-usage family; '
        'non-trivial = the expected observation differs from the plain "PASS / exit 0 / no output" run; distinct by construction')
ASSUMPTIONS = [
    'the action to check and the preprocessor are virtual children at the subprocess.call seam',
    'internal errors are produced by a stub instruction added through the public MainProgram constructor',
    'under status SKIP, a case whose only defect is found by validation may be reported as SKIPPED or as the validation '
    'error (the manual does not order the two); run-time endings under SKIP must be SKIPPED',
]

TABLE = {'PASS': 0, 'FAIL': 32, 'XPASS': 33, 'XFAIL': 33, 'SKIPPED': 0,
         'VALIDATION_ERROR': 65, 'SYNTAX_ERROR': 65, 'FILE_ACCESS_ERROR': 65, 'PRE_PROCESS_ERROR': 65,
         'HARD_ERROR': 128, 'INTERNAL_ERROR': 129}

# ending -> (class, ident, phase lines)   classes: see verdict()
E = {
    'pass': ('ok', None, {}),
    'assert-fail': ('fail', None, {'assert': ['exit-code != {N}']}),
    'assert-fail-2nd': ('fail', None, {'assert': ['exit-code == {N}', 'stub main FAIL x']}),
    'he-conf': ('C', 'HARD_ERROR', {'conf': ['stub main HEr']}),
    'ie-conf': ('C', 'INTERNAL_ERROR', {'conf': ['stub main EXC']}),
    've-conf': ('C', 'VALIDATION_ERROR', {'conf': ['stub main VE']}),
    'he-setup': ('Rpre', 'HARD_ERROR', {'setup': ['stub main HEr']}),
    'he-setup-run': ('Rpre', 'HARD_ERROR', {'setup': ['run % failing']}),
    'ie-setup': ('Rpre', 'INTERNAL_ERROR', {'setup': ['stub main EXC']}),
    've-post-setup': ('Rpre', 'VALIDATION_ERROR', {'setup': ['stub post VE']}),
    'he-act-nostart': ('Ract', 'HARD_ERROR', {'act': ['% nonexisting']}),
    'he-before': ('Rpost', 'HARD_ERROR', {'before-assert': ['stub main HEx']}),
    'he-before-run': ('Rpost', 'HARD_ERROR', {'before-assert': ['run % failing']}),
    'he-assert': ('Rpost', 'HARD_ERROR', {'assert': ['stub main HEr']}),
    'ie-assert': ('Rpost', 'INTERNAL_ERROR', {'assert': ['stub main EXC']}),
    'he-cleanup': ('Rcl', 'HARD_ERROR', {'cleanup': ['run % failing']}),
    'ie-cleanup': ('Rcl', 'INTERNAL_ERROR', {'cleanup': ['stub main EXC']}),
    'fail-and-he-cleanup': ('Rcl', 'HARD_ERROR', {'assert': ['exit-code != {N}'], 'cleanup': ['stub main HEr']}),
    'undef-symbol': ('V', 'VALIDATION_ERROR', {'setup': ['file f.txt = @[UNDEFINED_SYM]@']}),
    'undef-symbol-cleanup': ('V', 'VALIDATION_ERROR', {'cleanup': ['run % x @[UNDEFINED_SYM]@']}),
    'missing-home-file': ('V', 'VALIDATION_ERROR', {'setup': ['copy no-such-file-in-home']}),
    've-pre-assert': ('V', 'VALIDATION_ERROR', {'assert': ['stub pre VE']}),
    've-pre-cleanup': ('V', 'VALIDATION_ERROR', {'cleanup': ['stub pre VE']}),
    've-pre-before-assert': ('V', 'VALIDATION_ERROR', {'before-assert': ['stub pre VE']}),
    'missing-program-cleanup': ('V', 'VALIDATION_ERROR', {'cleanup': ['run -rel-home no-such-program']}),
    'missing-home-file-before-assert': ('V', 'VALIDATION_ERROR', {'before-assert': ['file g.txt = -contents-of -rel-home no-such-file']}),
    'ie-pre-sds': ('V', 'INTERNAL_ERROR', {'before-assert': ['stub pre EXC']}),
    'act-syntax': ('V', 'SYNTAX_ERROR', {'act': ["% atc 'unterminated"]}),
    'instr-syntax': ('P', 'SYNTAX_ERROR', {'setup': ['def nosuchtype X = 1']}),
    'unknown-instr': ('P', 'SYNTAX_ERROR', {'cleanup': ['no-such-instruction a b']}),
    'unknown-phase': ('P', 'SYNTAX_ERROR', {'nophase': ['x']}),
    'include-missing': ('P', 'FILE_ACCESS_ERROR', {'setup': ['including no-such-file.xly']}),
    'pp-nonzero': ('P', 'PRE_PROCESS_ERROR', {'pp': 'ppfail'}),
    'pp-nostart': ('P', 'PRE_PROCESS_ERROR', {'pp': 'ppmissing'}),
    'pp-ok': ('ok', None, {'pp': 'ppok'}),
    # the default suite file beside the case cannot be read as a suite: prevents execution like a syntax error of the case
    # the test-case file is not text: an unreadable input, not an error of the implementation
    'case-not-utf8': ('P', 'FILE_ACCESS_ERROR', {'bytes': b'[act]\n% atc \xff\xfe\n'}),
    'suite-syntax': ('P', 'SYNTAX_ERROR', {'suite': '[conf]\nno-such-conf-instruction x\n'}),
    'suite-unknown-section': ('P', 'SYNTAX_ERROR', {'suite': '[no-such-section]\nx\n'}),
    'suite-case-instr-syntax': ('P', 'SYNTAX_ERROR', {'suite': '[setup]\ndef nosuchtype X = 1\n'}),
}
ENDINGS = list(E)
STATUSES = (None, 'PASS', 'FAIL', 'SKIP')
MODES = ('normal', 'keep', 'act')
OUTPUTS = ('none', 'out', 'err', 'both', 'unicode')
CODES_Q = (0, 1, 2, 32, 33, 64, 65, 127, 128, 129, 255)

USAGE = [['--no-such-option', 'c.case'], [], ['no-such-file.case'], ['--actor'], ['--keep', '--act'],
         ['--preprocessor'], ['--suite'], ['--suite', 'no-such.suite', 'c.case'], ['c.case', 'extra-arg'],
         ['--keep', 'no-such-file.case'], ['--act', 'no-such-file.case'], ['-x'],
         # a FILE that cannot be reached: a symbolic-link loop, a name below a regular file
         ['loop.case'], ['--suite', 'loop.suite', 'c.case'], ['c.case/x.case'], ['--keep', 'loop.case'], ['--act', 'loop.case'], ['--suite', 'c.case/s.suite', 'c.case']] + [
         # an --actor / --preprocessor argument that holds no command: empty, only white space, unbalanced quotes - in every output mode
         mode + [opt, val, 'c.case'] for opt in ('--actor', '--preprocessor') for val in ('', ' ', '\t', ' \t ', '\n', "'", '"a') for mode in ([], ['--keep'], ['--act'])]


def prepare(tier):
    stubprog.main_program()
    procseam.install()


def cases(tier):
    for u in range(len(USAGE)):
        yield ('usage', u)
    codes = CODES_Q if tier == 'quick' else tuple(range(256))
    for ending in ENDINGS:
        for status in STATUSES:
            for mode in MODES:
                for output in OUTPUTS:
                    cs = codes
                    if tier == 'thorough' and not (ending in ('pass', 'assert-fail', 'he-cleanup', 'he-before') and output == 'both'):
                        cs = CODES_Q
                    for code in cs:
                        yield ('case', status, ending, code, output, mode)


def case_text(status, ending, code):
    cls, ident, lines = E[ending]
    ph = {k: [l.replace('{N}', str(code)) for l in v] for k, v in lines.items() if k not in ('pp', 'suite', 'bytes')}
    out = []
    out.append('[conf]')
    if status is not None:
        out.append('status = ' + status)
    out += ph.get('conf', [])
    out.append('[setup]')
    out += ph.get('setup', [])
    out.append('[act]')
    out += ph.get('act', ['% atc a1'])
    out.append('[before-assert]')
    out += ph.get('before-assert', [])
    out.append('[assert]')
    out += ph.get('assert', ['exit-code == %d' % code])
    out.append('[cleanup]')
    out += ph.get('cleanup', [])
    if 'nophase' in ph:
        out.append('[nophase]')
        out += ph['nophase']
    return '\n'.join(out) + '\n'


def verdict(status, ending):
    """-> (set of acceptable idents, sandbox created?, action ran?, error-before-act?)"""
    cls, ident, _ = E[ending]
    if cls == 'P':
        return {ident}, False, False
    if cls == 'C':
        return {ident}, False, False
    if status == 'SKIP':
        if cls == 'V':
            return {'SKIPPED', ident}, False, False
        return {'SKIPPED'}, False, False
    if cls == 'V':
        return {ident}, False, False
    if cls == 'Rpre':
        return {ident}, True, False
    if cls == 'Ract':
        return {ident}, True, False
    if cls in ('Rpost', 'Rcl'):
        return {ident}, True, True
    if cls == 'ok':
        return {'XPASS' if status == 'FAIL' else 'PASS'}, True, True
    if cls == 'fail':
        return {'XFAIL' if status == 'FAIL' else 'FAIL'}, True, True
    raise AssertionError(cls)


def run(case) -> Result:
    res = Result()
    res.n = 1
    w = world.get()
    w.reset()
    seam = procseam.SEAM
    seam.reset()
    mp = stubprog.main_program()
    if case[0] == 'usage':
        argv = USAGE[case[1]]
        w.write('c.case', '[act]\n% atc\n')
        for n in ('loop.case', 'loop.suite'):
            os.symlink(n, str(w.home / n))
        o = cli.run(argv, mp=mp)
        errs = []
        if o.exc and 'SystemExit' not in o.exc:
            errs.append('exception: %s' % o.exc)
        if o.rc != 64:
            errs.append('invalid usage %s: exit code %s, expected 64' % (argv, o.rc))
        if o.out != '':
            errs.append('invalid usage: stdout not empty: %r' % o.out[:100])
        if any(l in ('PASS', 'FAIL', 'SKIPPED', 'XFAIL', 'XPASS', 'SYNTAX_ERROR', 'FILE_ACCESS_ERROR', 'PRE_PROCESS_ERROR', 'VALIDATION_ERROR', 'HARD_ERROR', 'INTERNAL_ERROR')
               for l in o.err.split('\n')):
            errs.append('invalid usage: an exit identifier was printed: %r' % o.err[:120])
        if seam.calls:
            errs.append('invalid usage: a process was started')
        res.outcomes[('usage', o.rc)] += 1
        res.nontrivial += 1
        if errs:
            res.violation(case, errs, o.brief())
        return res

    _, status, ending, code, output, mode = case
    aout = 'AOUT line 1\nline 2 no newline' if output in ('out', 'both') else ''
    aerr = 'AERR line\n' if output in ('err', 'both') else ''
    if output == 'unicode':
        aout, aerr = 'na\u00efve \u20ac \U0001f600\n\u2028x', '\u00e9rr\n'
    seam.script['atc'] = {'out': aout, 'err': aerr, 'exit': code}
    seam.script['failing'] = {'exit': 3, 'err': 'failing program\n'}
    seam.script['nonexisting'] = {'oserror': True}
    text = case_text(status, ending, code)
    seam.script['ppok'] = {'out': text}
    seam.script['ppfail'] = {'exit': 2, 'err': 'pp says no\n', 'out': text}
    seam.script['ppmissing'] = {'oserror': True}
    args = []
    pp = E[ending][2].get('pp')
    if pp:
        args += ['--preprocessor', pp + ' pp-arg']
    if mode == 'keep':
        args.append('--keep')
    elif mode == 'act':
        args.append('--act')
    if E[ending][2].get('suite'):
        w.write('exactly.suite', E[ending][2]['suite'])
    if E[ending][2].get('bytes'):
        p_ = w.write('c.case', '')
        with open(p_, 'wb') as f_:
            f_.write(E[ending][2]['bytes'])
        o = cli.run(args + [str(p_)], mp=mp, real_files=(mode == 'act'))
    else:
        o = cli.run_case(text if not pp else 'not a test case [\n', args=args, mp=mp, real_files=(mode == 'act'))
    errs = []
    if o.exc:
        errs.append('exception escaped / hang: %s' % o.exc)
    idents, sandbox, act_ran = verdict(status, ending)
    cls = E[ending][0]
    act_calls = [c for c in seam.calls if c['name'] == 'atc']
    if mode == 'act' and cls == 'Rpost':
        # [before-assert] and [assert] are skipped: execution completes
        idents = {'XPASS' if status == 'FAIL' else 'PASS'} if status != 'SKIP' else {'SKIPPED'}
    if mode == 'act' and cls == 'fail' and status != 'SKIP':
        idents = {'XPASS' if status == 'FAIL' else 'PASS'}
    if act_ran != bool(act_calls) and not (len(idents) > 1):
        errs.append('action to check %s, expected %s' % ('started' if act_calls else 'not started', act_ran))
    if len(act_calls) > 1:
        errs.append('action to check started %d times' % len(act_calls))

    sbs = w.sandboxes()
    err_lines = o.err.split('\n')
    if mode == 'normal':
        lines = o.out.split('\n')
        if not (len(lines) == 2 and lines[1] == '' and lines[0] in idents):
            errs.append('stdout %r is not exactly one identifier line from %s' % (o.out[:200], sorted(idents)))
        ident = lines[0]
        if TABLE.get(ident) != o.rc:
            errs.append('exit code %s does not correspond to identifier %s' % (o.rc, ident))
        if sbs:
            errs.append('sandbox left behind: %s' % sbs)
        if ident in ('PASS', 'XPASS', 'SKIPPED') and o.err.strip():
            errs.append('stderr not empty for %s: %r' % (ident, o.err[:200]))
    elif mode == 'keep':
        ident = err_lines[0]
        if ident not in idents:
            errs.append('first stderr line %r is not an identifier from %s' % (ident, sorted(idents)))
        if TABLE.get(ident) != o.rc:
            errs.append('exit code %s does not correspond to identifier %s' % (o.rc, ident))
        want_sb = sandbox and ident != 'SKIPPED'
        if want_sb:
            p = o.out[:-1] if o.out.endswith('\n') else None
            if p is None or '\n' in p or not os.path.isdir(p):
                errs.append('--keep: stdout %r is not exactly the path of an existing directory' % o.out[:300])
            else:
                if sorted(os.listdir(p)) != ['act', 'internal', 'result', 'tmp']:
                    errs.append('--keep: %s is not a sandbox: %s' % (p, sorted(os.listdir(p))))
                if [os.path.join(str(w.sb), s) for s in sbs] != [os.path.realpath(p)] and [os.path.join(str(w.sb), s) for s in sbs] != [p]:
                    errs.append('--keep: sandbox root holds %s, reported %s' % (sbs, p))
        else:
            if o.out != '':
                errs.append('--keep without a sandbox: stdout %r, expected nothing' % o.out[:200])
            if sbs:
                errs.append('--keep: sandbox exists although execution could not start: %s' % sbs)
    else:  # --act
        completes = idents <= {'PASS', 'FAIL', 'XPASS', 'XFAIL'}
        if completes:
            ident = 'completed'
            if o.rc != code:
                errs.append('--act: exit code %s, expected the action\'s %s' % (o.rc, code))
            if o.out != aout:
                errs.append('--act: stdout %r, expected the action\'s %r' % (o.out[:200], aout))
            if o.err != aerr:
                errs.append('--act: stderr %r, expected the action\'s %r' % (o.err[:200], aerr))
        else:
            exp_out = aout if act_calls else ''
            if o.out != exp_out:
                errs.append('--act with error: stdout %r, expected %r' % (o.out[:200], exp_out))
            rest = o.err
            if act_calls:
                if not rest.startswith(aerr):
                    errs.append('--act with error: stderr does not start with the action\'s stderr: %r' % rest[:200])
                rest = rest[len(aerr):]
            ident = rest.split('\n')[0]
            if ident not in idents:
                errs.append('--act with error: identifier line %r not in %s' % (ident, sorted(idents)))
            if TABLE.get(ident) != o.rc:
                errs.append('--act with error: exit code %s does not correspond to %s' % (o.rc, ident))
        if sbs:
            errs.append('sandbox left behind: %s' % sbs)
    diff = w.process_state_diff()
    if diff:
        errs.append('process state changed: %s' % diff[:3])
    res.outcomes[(mode, ident, o.rc if mode != 'act' or ident != 'completed' else 'atc-code')] += 1
    if not (idents == {'PASS'} and code == 0 and output == 'none' and mode == 'normal'):
        res.nontrivial += 1
    if not res.samples and ending != 'pass':
        res.samples.append({'case': case, 'file': text, 'argv': args, 'rc': o.rc, 'stdout': o.out[:120], 'stderr': o.err[:160]})
    if errs:
        res.violation(case, errs, dict(o.brief(), file=text, argv=args))
    return res
