"""C18 — mistakes in a test case are reported as such, never as internal errors (DESIGN §3 C18).

Seed corpus: one valid line for every instruction of every phase and every form of every type (checked to PASS first).
For every seed line, EVERY single mutation from: delete / duplicate token i, swap tokens i,i+1, replace token i by each of a set of
troublesome tokens, truncate the file at every character of the line, remove / add one quote character, header mutations.
All processes are virtual, so mutated command lines are harmless.
Oracle: execute returns; exit code in {0,32,33,65,128}; stdout is exactly one identifier line consistent with the exit code; never 129 /
INTERNAL_ERROR / Traceback; exit 65 reports name the test-case file and a line.
"""
import re

from mc import world, procseam, cli, kf
from mc.result import Result

PROPERTY = 'C18'
LEVEL = 'exploration'
CASE_GUARD_S = {'quick': 300, 'thorough': 3600}  # a case is a composite (a block of expressions x all texts, ...)
CHUNK = 1
RULE = ('seed corpus of ~140 valid instruction lines (every instruction of every phase, every form of every type) x every single mutation: delete token i, duplicate token i, swap tokens i,i+1, '
        'replace token i by each of ~65 troublesome tokens (parentheses, operators, quote characters, symbol references of every wrong type, ill-formed and extreme integers incl. ones too large '
        'to print and expressions raising every kind of exception, regexes and replacement strings that do not compile, globs, here-document and text-until-eol markers, unknown options, '
        'non-ASCII, control characters, white space the tokenizer does not split at), truncation of the file at every character of the '
        'line, removal / addition of one quote character; thorough: also all pairs (replace token i, replace token j); non-trivial = the mutated case differs from the seed')
ASSUMPTIONS = [
    'inputs whose evaluation cost is unbounded (e.g. 9**9**9 as an INTEGER, Python eval semantics) are not generated',
    'arbitrary binary / non-UTF-8 files are represented by three fixed samples',
]

TABLE = {0: ('PASS', 'SKIPPED'), 32: ('FAIL',), 33: ('XFAIL', 'XPASS'), 65: ('SYNTAX_ERROR', 'VALIDATION_ERROR', 'FILE_ACCESS_ERROR', 'PRE_PROCESS_ERROR'), 128: ('HARD_ERROR',)}

PRELUDE_CONF = ['act-home = .']
PRELUDE_SETUP = [
    "def string S = 'str'", "def string N = 3", 'def list L = a "b c"', 'def path P = -rel-act f.txt', 'def text-matcher TM = ! is-empty',
    'def text-transformer TT = char-case -to-upper', 'def line-matcher LM = line-num >= 1', 'def integer-matcher IM = >= 0', "def file-matcher FM = type file",
    'def files-matcher FSM = ! is-empty', 'def program PGM = % prog a', "def text-source TS = 'text source'", 'def files-source FS = { file a.txt }',
    'def files-condition FC = { a.txt }',
    "file f.txt = <<EOF\nline 1\nline 2\nEOF", 'dir d = { file a.txt = "x"\n dir sub = { file b.txt } }', 'copy data.txt',
    # strings that are built, two definitions down and below a reference that is not the last one, from a list / a path
    'def string DEEP0 = "@[L]@"', 'def string DEEP = "@[DEEP0]@@[S]@"', 'def string DEEPP0 = @[P]@', 'def string DEEPP = "@[DEEPP0]@-@[N]@"',
    # path symbols of every kind of relativity (as destinations most of them are illegal: a VALIDATION_ERROR, with a message about each kind)
    'def path PABS = /nonexisting-verif-abs-dir', 'def path PHOME = -rel-home data.txt', 'def path PRES = -rel-result stdout', 'def path PABS2 = @[PABS]@/sub',
    # texts whose last line has no line ending
    "file nonl.txt = 'line'", 'file nonl2.txt = -contents-of -rel-act f.txt -transformed-by strip -trailing-new-lines',
]

CORPUS = [
    # (phase, line)
    ('conf', 'status = FAIL'), ('conf', 'actor = command'), ('conf', 'actor = source % interp -x'), ('conf', 'actor = null'), ('conf', 'home = hd'),
    ('conf', 'act-home = hd'),
    ('setup', "def string S2 = 'a @[S]@'"), ('setup', 'def string S3 = :> until end @[S]@'), ('setup', 'def list L2 = x @[L]@ "y z" @[S]@'),
    ('setup', 'def path P2 = -rel P sub/@[S]@'), ('setup', 'def path P3 = @[P]@/x'), ('setup', 'def path P4 = -rel-here hd'),
    ('setup', "def text-matcher M1 = equals 'x' && ( matches -full -ignore-case 'a.*' || ! is-empty )"),
    ('setup', 'def text-matcher M2 = every line : contents matches ^l && any line : line-num == 1'),
    ('setup', 'def text-matcher M3 = num-lines ( >= 1 && < 10 ) && -transformed-by TT matches LINE'),
    ('setup', 'def text-matcher M4 = run % chk arg'),
    ('setup', "def text-transformer T1 = replace -at LM -preserve-new-lines 'l(i)' '\\1x' | strip -trailing-space | filter contents matches x"),
    ('setup', 'def text-transformer T2 = filter -line-nums 1 2:3 :-1 -2:'), ('setup', 'def text-transformer T3 = grep -full x | char-case -to-lower | identity | run % tr'),
    ('setup', 'def text-transformer T4 = replace-test-case-dirs | strip -trailing-new-lines'),
    ('setup', 'def line-matcher LM2 = contents equals x || line-num ( == 1 || > 3 ) && ! constant false'),
    ('setup', 'def integer-matcher IM2 = == 1 || != @[N]@ && ( < 5 || <= 6 || > 7 || >= 8 )'),
    ('setup', "def file-matcher FM2 = name '*.txt' && ( stem ~ ^a || suffix .txt || suffixes ~ t$ || path '*' ) && type file && contents TM"),
    ('setup', 'def file-matcher FM3 = dir-contents -recursive -min-depth 0 -max-depth @[N]@ FSM || run -path-arg-marker M % chk M'),
    ('setup', 'def files-matcher FSM2 = num-files >= 1 && matches -full { a.txt : type file\n sub } && -selection FM every file : type file'),
    ('setup', 'def files-matcher FSM3 = -with-pruned name sub any file : name a.txt || is-empty'),
    ('setup', 'def files-condition FC2 = { a.txt : FM\n @[S]@ }'), ('setup', 'def files-source FS2 = { file x.txt = "c"\n dir y = { file z.txt }\n file w.txt += "a" }'),
    ('setup', 'def files-source FS3 = dir-contents-of -rel-act d'), ('setup', "def text-source TS2 = -contents-of -rel-act f.txt -transformed-by TT"),
    ('setup', 'def text-source TS3 = -stdout-from -ignore-exit-code % gen a'), ('setup', "def text-source TS4 = <<EOF\nhere @[S]@\nEOF"),
    ('setup', "def program PG2 = @ PGM b 'c d' -existing-file -rel-act f.txt"), ('setup', "def program PG3 = -python -c :> print(1)"), ('setup', 'def program PG4 = $ echo @[S]@ | cat'),
    ('setup', 'def program PG5 = % prog\n -stdin TS\n -transformed-by TT'),
    ('setup', "file g.txt = 'contents @[S]@'"), ('setup', 'file g2.txt = -contents-of -rel-act f.txt -transformed-by ( TT | strip )'), ('setup', 'file g3.txt = -stdout-from @ PGM x'),
    ('setup', 'file f.txt += -stderr-from % gen'), ('setup', 'file -rel-tmp g4.txt'), ('setup', 'dir e'), ('setup', 'dir -rel-tmp e2 = FS'), ('setup', 'dir d += { file more.txt }'),
    ('setup', 'copy data.txt copied.txt'), ('setup', 'copy -rel-home hd -rel-tmp hd-copy'), ('setup', 'cd d/sub'), ('setup', 'cd -rel-tmp .'),
    ('setup', 'env V = val'), ('setup', 'env -of act V = "${V}x"'), ('setup', 'env -of !act unset V'), ('setup', 'env V = -stdout-from % gen'),
    ('setup', 'timeout = 5'), ('setup', 'timeout = none'), ('setup', 'timeout = @[N]@*2'), ('setup', "stdin = 'input'"), ('setup', 'stdin = -contents-of -rel-act f.txt'),
    ('setup', 'run % prog a @[L]@ "b"'), ('setup', 'run -ignore-exit-code @ PGM x'), ('setup', '$ echo hello > out.txt'), ('setup', '% prog a b'),
    ('setup', 'run -python -c :> import sys'), ('setup', 'run % prog\n -stdin TS'),
    ('act', '% atc -existing-file -rel-act f.txt a'), ('act', '-rel-home exe a -existing-file -rel-home data.txt'), ('act', '@ PGM -existing-file -rel-act f.txt "x y"'),
    ('act', '% atc a "b c" @[S]@'), ('act', '$ atc | cat'), ('act', '-python -c :> print(1)'), ('act', '@ PGM x'), ('act', 'exe a b'),
    ('before-assert', 'run % prog'), ('before-assert', "file ba.txt = 'x'"), ('before-assert', 'cd d'), ('before-assert', 'env V = 1'), ('before-assert', 'timeout = 1'),
    ('before-assert', "def string BA = 'x'"), ('before-assert', '$ true'), ('before-assert', '% prog'), ('before-assert', 'dir ba-dir'), ('before-assert', 'copy data.txt ba-copy.txt'),
    ('assert', 'exit-code == 0'), ('assert', 'exit-code IM'), ('assert', 'exit-code ( > -1 && < 2**8 )'), ('assert', 'exit-code -from % prog\n == 0'),
    ('assert', 'stdout equals <<EOF\nx\nEOF'), ('assert', "stdout -transformed-by TT equals 'X\\n' || ! is-empty"), ('assert', 'stderr is-empty'),
    ('assert', 'stdout -from % prog a\n ! is-empty'), ('assert', "stdout any line : contents matches 'x'"), ('assert', 'stdout TM'),
    ('assert', 'contents f.txt : num-lines == 2'), ('assert', 'contents -rel-act f.txt : -transformed-by ( filter line-num == 1 ) equals <<EOF\nline 1\nEOF'),
    ('assert', "contents f.txt : equals -contents-of -rel-act f.txt"), ('assert', 'contents f.txt : ( run % chk )'),
    ('assert', 'exists f.txt'), ('assert', 'exists ! nofile'), ('assert', 'exists d : type dir && dir-contents -recursive num-files == 3'), ('assert', 'exists @[P]@ : FM'),
    ('assert', 'dir-contents d : matches { a.txt : type file }'), ('assert', 'dir-contents d : -recursive -max-depth 1 every file : ( type file || type dir )'),
    ('assert', 'dir-contents d : -selection name a.txt num-files == 1'), ('assert', 'dir-contents d : FSM'),
    ('assert', 'run % prog'), ('assert', "def string A1 = 'x'"), ('assert', 'file as.txt'), ('assert', 'cd d'), ('assert', 'env V = 1'), ('assert', 'timeout = 2'), ('assert', '$ true'),
    ('assert', '% prog a'), ('assert', 'dir as-dir'), ('assert', 'copy data.txt as-copy.txt'),
    ('cleanup', 'run % prog'), ('cleanup', "file cl.txt = 'x'"), ('cleanup', 'cd d'), ('cleanup', 'env V = 1'), ('cleanup', 'timeout = 1'), ('cleanup', "def string CL = 'x'"),
    ('cleanup', '$ true'), ('cleanup', '% prog'), ('cleanup', 'dir cl-dir'), ('cleanup', 'copy data.txt cl-copy.txt'),
    ('setup', 'including inc.xly'),
    # definitions are not evaluated: the same forms applied
    ('setup', "file r1.txt = -contents-of -rel-act f.txt -transformed-by replace 'l(i)' '\\1x'"),
    ('assert', "stdout -transformed-by replace -preserve-new-lines x 'y\\n' equals <<EOF\ny\n\nEOF"),
    ('assert', "contents f.txt : -transformed-by ( replace -at ( line-num == 1 ) 'line' 'L' | filter contents matches ^L ) num-lines == 1"),
    ('assert', "contents f.txt : matches -full 'line 1\\nline 2\\n' && any line : contents matches -ignore-case LINE"),
    ('assert', "dir-contents d : -recursive -min-depth 1 -max-depth 2 every file : ( name '*.txt' || stem ~ ^s )"),
    ('assert', "exists f.txt : contents ( num-lines == 1+1 && every line : line-num <= 2 )"),
    ('assert', "stdout -transformed-by ( grep x | filter line-num == 1 ) ! is-empty"),
    ('before-assert', "file r2.txt = -stdout-from % gen\n -transformed-by TT"),
    ('assert', "dir-contents d : -selection path '*a.txt' num-files == 1"), ('assert', "exists f.txt : path '*f.txt' && name 'f*' && stem 'f' && suffix '.txt' && suffixes '.*'"),
    ('assert', "dir-contents d : -recursive any file : ( path ~ 'b.txt$' && name ~ '^b' )"),
    ('assert', '`the exit code` exit-code == 0'), ('setup', "`a description\n over two lines`\n# a comment\n\nfile dsc.txt = 'x'"), ('cleanup', '`d` run % prog'),
    ('cleanup', "file cl2.txt = -contents-of -rel-act f.txt -transformed-by replace 'l(i)' '\\1x'"),
    ('cleanup', "file cl3.txt = -stdout-from % gen\n -transformed-by ( filter contents matches 'x' | replace -at line-num == 1 x y )"),
    ('cleanup', 'run % prog -existing-file -rel-act f.txt'),
    ('before-assert', "file ba2.txt = -contents-of -rel-act f.txt -transformed-by grep 'l(i)'"),
    # transformers applied to texts whose (only / last) line is not terminated
    ('assert', "contents nonl.txt : -transformed-by replace -preserve-new-lines 'l(i)' '\\1x' equals 'ixne'"),
    ('assert', "contents nonl.txt : -transformed-by replace 'l(i)' '\\1x' equals 'ixne'"),
    ('assert', "contents nonl2.txt : -transformed-by replace -at ( line-num == 2 ) -preserve-new-lines 'l(i)' '\\1x' matches -full 'line 1\\nixne 2'"),
    ('assert', "contents nonl2.txt : -transformed-by ( filter line-num == 2 | replace -preserve-new-lines 'l(i)' '\\1x' ) equals 'ixne 2'"),
    ('setup', "file r4.txt = -contents-of -rel-act nonl.txt -transformed-by replace -preserve-new-lines 'l(i)' '\\1x'"),
]

REPL = ['(', ')', '=', ':', '!', '&&', '||', '|', "'", '"', '@[', ']@', '@[S]@', '@[L]@', '@[P]@', '@[TM]@', 'TM', 'PGM', '@[UNDEFINED]@', '-1', '0x', '1/0', '1//0', '2**64', "int('x')",
        '1.5', '[', '*', '\\6', '\\g<9>', "'\\6'", "'\\q'", '(?P<n', 'a{4294967296}', '<<EOF', ':>', '-no-such-option', 'é', '\t', '{', '}', '', '\\', '-rel-home', '-rel', '**', 'none', 'n' * 300,
        # characters str.isspace() accepts but the tokenizer does not treat as separators
        '\xa0', '\x0c', '\x0b', '\x1c', '\x85', '\u2028', '\u3000', 'a\xa0b',
        # integers: too large to display; evaluation errors whose exception arguments are not strings / are missing
        '10**5000', '-10**5000', '2.0**10000', '{}[1]', "open('/non-existing')", 'next(iter(()))', '[][0]', '1<<(1<<20)<<0 if 0 else 1<<70', "int('9'*5000)",
        '@[DEEP]@', '@[DEEPP]@',
        # empty strings where a pattern / name is wanted; an integer beyond float range (a timeout is handed to the OS as a float); a NUL character
        "''", '""', '.', './', '10**400', '-10**400', 'a\x00b', '\x00',
        # integer expressions that try to end the interpreter
        'exit(0)', 'exit(3)', 'quit()', "__import__('sys').exit(7)",
        # values that depend on the directory structure: they can only be validated after the sandbox exists (or after the home directories are known)
        '@[PABS]@', '@[PHOME]@', '@[PRES]@', '@[PABS2]@/x',
        # names of builtin symbols and of symbols the prelude defines (as the name of a definition: defined twice)
        'EXACTLY_HOME', 'EXACTLY_RESULT', 'S',
        '"@[EXACTLY_ACT]@("', '"@[EXACTLY_TMP]@["', '@[EXACTLY_HOME]@', '"@[EXACTLY_HOME]@["', '"@[P]@("', '@[EXACTLY_RESULT]@/x']


def tokens_of(line):
    """Whitespace-separated tokens, keeping quoted strings and line breaks as tokens."""
    return re.findall(r"\n|'[^'\n]*'|\"[^\"\n]*\"|[^\s]+", line)


def join(toks):
    out = ''
    for i, t in enumerate(toks):
        if t == '\n':
            out = out.rstrip(' ') + '\n'
        else:
            out += t + ' '
    return out.rstrip(' ')


def mutations(line, tier):
    toks = tokens_of(line)
    seen = {line}
    for i in range(len(toks)):
        for m in (toks[:i] + toks[i + 1:], toks[:i] + [toks[i], toks[i]] + toks[i + 1:]):
            s = join(m)
            if s not in seen:
                seen.add(s)
                yield ('tok', s)
        if i + 1 < len(toks):
            s = join(toks[:i] + [toks[i + 1], toks[i]] + toks[i + 2:])
            if s not in seen:
                seen.add(s)
                yield ('tok', s)
        if toks[i] == '\n':
            continue
        for r in REPL:
            s = join(toks[:i] + [r] + toks[i + 1:])
            if s not in seen:
                seen.add(s)
                yield ('tok', s)
    m = re.match(r'def (\S+) (\w+) = ', line)
    if m:
        # the definition refers to the symbol it defines, and a later instruction uses the symbol
        typ, name = m.group(1), m.group(2)
        start = len(tokens_of(m.group(0)))
        use = {'string': 'run %% use @[%s]@', 'list': 'run %% use @[%s]@', 'path': 'run %% use @[%s]@', 'program': 'run @ %s',
               'text-matcher': 'def text-matcher USE = ! %s\nfile u.txt = -contents-of -rel-act f.txt -transformed-by filter contents USE',
               'text-transformer': 'file u.txt = -contents-of -rel-act f.txt -transformed-by %s', 'text-source': 'file u.txt = %s',
               'line-matcher': 'file u.txt = -contents-of -rel-act f.txt -transformed-by filter %s',
               'integer-matcher': 'file u.txt = -contents-of -rel-act f.txt -transformed-by filter line-num %s',
               'file-matcher': 'def files-matcher USE = every file : %s', 'files-matcher': 'def file-matcher USE = dir-contents %s',
               'files-condition': 'def files-matcher USE = matches %s', 'files-source': 'dir u = %s'}.get(typ)
        if use:
            for i in range(start, len(toks)):
                if toks[i] == '\n':
                    continue
                for r in ('@[%s]@' % name, name):
                    yield ('tok', join(toks[:i] + [r] + toks[i + 1:]) + '\n' + use % name)
    for c in range(1, len(line)):
        yield ('trunc', line[:c])
    for i, ch in enumerate(line):
        if ch in '\'"':
            s = line[:i] + line[i + 1:]
            if s not in seen:
                seen.add(s)
                yield ('tok', s)
    for q in '\'"':
        for i in (0, len(line)):
            s = line[:i] + q + line[i:]
            if s not in seen:
                seen.add(s)
                yield ('tok', s)
    if tier == 'thorough':
        small = ['(', "'", '@[TM]@', '1/0', '\\6', '<<EOF', '', '-no-such-option']
        n = len(toks)
        for i in range(n):
            for j in range(i + 1, n):
                if '\n' in (toks[i], toks[j]):
                    continue
                for a in small:
                    for b in small:
                        m = list(toks)
                        m[i], m[j] = a, b
                        s = join(m)
                        if s not in seen:
                            seen.add(s)
                            yield ('tok', s)


def build(phase, line, truncated=False):
    ph = {'conf': list(PRELUDE_CONF), 'setup': list(PRELUDE_SETUP), 'act': ['% atc'], 'before-assert': [], 'assert': [], 'cleanup': []}
    if phase == 'act':
        ph['act'] = [line]
    else:
        ph[phase].append(line)
    order = ['conf', 'setup', 'act', 'before-assert', 'assert', 'cleanup']
    if truncated:
        # the mutated line is the last thing in the file
        order = [p for p in order if p != phase] + [phase]
    text = ''
    lineno = 1
    target = None
    for p in order:
        text += '[%s]\n' % p
        lineno += 1
        for l in ph[p]:
            if l is line and target is None:
                target = lineno
            text += l + '\n'
            lineno += l.count('\n') + 1
    if truncated:
        text = text[:-1]
    return text, target


def prepare(tier):
    import os
    os.environ['VERIF_TIER_EFFECTIVE'] = tier
    cli.main_program()
    procseam.install()


def cases(tier):
    for i in range(len(CORPUS)):
        yield ('seed', i)
    for i in range(len(HEADERS)):
        yield ('header', i)
    for i in range(len(RAW)):
        yield ('raw', i)


HEADERS = ['[nophase]', '[setup', 'setup]', '[ setup ]', '[SETUP]', '[setup] x', '[[setup]]', '[]', '[act][assert]']
RAW = ['[act]\n% atc\n' + '\x0c\n' * 3000, '[act]\n% atc a\n' + ' \t \n' * 5000, '[setup]\n' + '\n' * 20000 + 'run % p\n[act]\n% atc\n',
       '[assert]\n`desc`\n# comment', '[assert]\n`desc`\n\n# c\n\n#', '[assert]\n`desc`\n  ', '[assert]\n`desc`', '[assert]\n`desc', '[setup]\n`d`\n#x\n[act]\n% atc', '[assert]\n`desc`\n#\n',
       '[assert]\n`a\nmulti-line\ndescription`\n# only a comment follows',
       '[assert]\n\xa0', '[assert]\n\x0c', '[setup]\ndef string A = 1\n\x0b', '[act]\n% atc\n[cleanup]\n \x1c', '[act]\nprog \xa0', '[act]\n\xa0\n', '[setup]\n\u2028', '[setup]\n\x85\n[act]\n',
       '', '\n\n\n', '\x00\x01\x02', '﻿[act]\n% atc\n', '[act]\n' + 'x' * 100000, '\r\n[act]\r\n% atc\r\n', '[act]\n% atc\n[assert]\nexit-code == 0' + '\n' * 5000,
       '[setup]\n' + 'def string S%d = x\n' * 3, '#' * 1000,
       # the header of an unknown phase directly followed by another header (an empty unknown phase is unknown all the same)
       '[nophase]\n[act]\n% atc\n', '[setup]\n[before-asert]\n[assert]\nexit-code == 0\n', '[act]\n% atc\n[assert]\n[clean-up]\n[cleanup]\n', '[x]\n[y]\n[setup]\n'] + [
       # a header-like line preceded by white space that is not space / tab (the header syntax allows only those two before `[`)
       tmpl % (ws + hd) for ws in ('\x0c', '\x0b', '\xa0', '\u2003', '\x1c', '\u3000', ' \x0c ', '\t\xa0')
       for hd in ('[assert]', '[no-such-phase]', '[act]')
       for tmpl in ('[setup]\n%s\n', '[act]\n%% atc\n[assert]\n%s\nexit-code == 0\n', '[act]\n%s\n', '%s\n', '[cleanup]\n%s')] + [
        '[act]\n\\', '[setup]\nfile f = <<\n', '[setup]\nfile f = <<EOF', "[setup]\ndef string X = 'a\nb'\n"]


UNKNOWN_PHASE_RAW = {'[nophase]\n[act]\n% atc\n', '[setup]\n[before-asert]\n[assert]\nexit-code == 0\n', '[act]\n% atc\n[assert]\n[clean-up]\n[cleanup]\n', '[x]\n[y]\n[setup]\n'}


def _world(w, seam):
    w.reset()
    seam.reset()
    seam.default = lambda rec: {'exit': 0, 'out': 'x\n'}
    w.write('data.txt', 'data\n')
    w.write('hd/h.txt', 'h\n')
    w.write('hd/data.txt', 'data\n')
    w.write('inc.xly', "def string INC = 'i'\n")
    exe = w.write('exe', '#!/bin/sh\n')
    import os
    os.chmod(exe, 0o755)


def judge(o, text, target=None):
    errs = []
    if o.hang:
        return ['exactly waits for ever: %s' % o.exc]
    if o.exc:
        return ['an exception escaped MainProgram.execute: %s' % o.exc[:600]]
    if o.rc not in TABLE:
        errs.append('exit code %s is not a documented outcome of a test case' % o.rc)
    lines = o.out.split('\n')
    if not (len(lines) == 2 and lines[1] == ''):
        errs.append('stdout %r is not exactly one identifier line' % o.out[:200])
    elif o.rc in TABLE and lines[0] not in TABLE[o.rc]:
        errs.append('identifier %r does not correspond to exit code %s' % (lines[0], o.rc))
    if 'INTERNAL_ERROR' in o.out or 'Traceback (most recent call last)' in o.err:
        errs.append('reported as an internal error: %s' % ' / '.join(cli.stderr_lines(o.err)[-4:])[:400])
    if o.rc == 65 and lines[0] in ('SYNTAX_ERROR', 'VALIDATION_ERROR') and 'c.case' not in o.err and 'Actor' not in o.err:
        errs.append('exit 65 without a source location in the report: %r' % o.err[:300])
    return errs


def run(case) -> Result:
    res = Result()
    w = world.get()
    seam = procseam.SEAM
    k = case[0]
    if k == 'one':
        _, phase, kind, mutated = case
        _one(res, w, seam, phase, kind, mutated)
        return res
    if k == 'seed':
        phase, line = CORPUS[case[1]]
        _world(w, seam)
        text, target = build(phase, line)
        o = cli.run_case(text)
        res.n += 1
        if o.ident not in ('PASS', 'XPASS') or o.exc:
            res.violation(case, ['the seed line `%s` in [%s] must be valid: got %s / %s' % (line, phase, o.ident, ' / '.join(cli.stderr_lines(o.err)[-4:])[:400])], {'file': text})
            return res
        for kind, m in mutations(line, _tier()):
            _one(res, w, seam, phase, kind, m)
        if not res.samples:
            res.samples.append({'seed': line, 'phase': phase, 'mutations': res.n - 1})
        return res
    if k == 'header':
        _world(w, seam)
        text = '[setup]\ndef string A = 1\n%s\nrun %% p\n[act]\n%% atc\n' % HEADERS[case[1]]
        o = cli.run_case(text)
        res.n += 1
        res.nontrivial += 1
        errs = judge(o, text)
        res.outcomes[('header', o.ident)] += 1
        if errs:
            res.violation(case, errs, {'file': text})
        return res
    if k == 'raw':
        _world(w, seam)
        o = cli.run_case(RAW[case[1]])
        res.n += 1
        res.nontrivial += 1
        errs = judge(o, RAW[case[1]])
        if RAW[case[1]] in UNKNOWN_PHASE_RAW and (o.ident != 'SYNTAX_ERROR' or o.rc != 65):
            errs.append('the file names a phase that does not exist: expected SYNTAX_ERROR / 65, got %s / %s' % (o.ident, o.rc))
        res.outcomes[('raw', o.ident)] += 1
        if errs:
            hit = kf.classify_c18(RAW[case[1]], o.rc, o.out, o.err)
            if hit:
                res.kf[hit] += 1
            else:
                res.violation(case, errs, {'file': RAW[case[1]][:300]})
        return res
    raise ValueError(case)


_TIER = ['quick']


def _tier():
    import os
    return os.environ.get('VERIF_TIER_EFFECTIVE', _TIER[0])


def _one(res, w, seam, phase, kind, mutated):
    _world(w, seam)
    text, target = build(phase, mutated, truncated=(kind == 'trunc'))
    o = cli.run_case(text)
    res.n += 1
    res.nontrivial += 1
    res.outcomes[(o.ident if not o.exc else 'EXCEPTION', o.rc)] += 1
    errs = judge(o, text, target)
    if errs:
        hit = kf.classify_c18(text, o.rc, o.out, o.err)
        if hit:
            res.kf[hit] += 1
            return
        res.violation(('one', phase, kind, mutated), ['[%s] `%s`: %s' % (phase, mutated, errs[0])] + errs[1:], {'file': text[-600:]})
