"""C01 — phased execution protocol (DESIGN §3 C01).

Seam S-EXE: full_execution.execute with stub instructions / stub actor whose
every step appends to a trace and answers as the fault plan says.
Explored: shape × status × mode × keep × fault plan (deviation bounded).
Oracle: invariants I1–I5 of the statement, evaluated on the trace + result.
"""
import itertools
import os
import pathlib
import tempfile

from mc import world
from mc.result import Result

PROPERTY = 'C01'
LEVEL = 'model_checking'
CHUNK = {'quick': 400, 'thorough': 2500}
RULE = ('program-level slice: every single stub fault (and forward+cleanup pairs) as test-case FILES through MainProgram.execute in normal / --act / --keep mode; library level: cases = (instructions per phase conf/setup/before-assert/assert/cleanup) x status x executor mode '
        '(normal / act-only) x keep-sandbox x fault plan; fault plans are enumerated by number of deviations: '
        '0 faults, every single (step, position, kind), every (forward fault, cleanup-main fault) pair, and in the '
        'thorough tier arbitrary pairs and (forward, forward, cleanup) triples; non-trivial = at least one planned fault '
        'was actually reached by the execution (the trace deviates from the fault-free run); distinct by construction')
ASSUMPTIONS = [
    'stub instructions subclass the public phase-instruction base classes; the executor under test is the real one',
    'more than 3 instructions per phase and failures inside sandbox construction itself are outside the bound',
    'the relative order of the post-setup validation steps is not constrained by the statement and not checked '
    '(recorded as agreement with the reference protocol machine only)',
]

PHASES = ('setup', 'before-assert', 'assert', 'cleanup')
SVH = ('VE', 'HEr', 'HEx', 'EXC')
SH = ('HEr', 'HEx', 'EXC')
SYM = ('UNDEF', 'EXC')
STATUS_OF = {'VE': 'VALIDATION_ERROR', 'HEr': 'HARD_ERROR', 'HEx': 'HARD_ERROR', 'EXC': 'INTERNAL_ERROR',
             'UNDEF': 'VALIDATION_ERROR', 'PARSE': 'SYNTAX_ERROR', 'FAIL': 'FAIL', 'MSG': 'HARD_ERROR'}
STEP_WORD = {'sym': 'symbols', 'pre': 'pre-sds', 'post': 'post-setup', 'main': 'main', 'parse': 'parse',
             'exeinput': 'exe-input', 'prepare': 'prepare', 'execute': 'execute'}
LINE_BASE = {'conf': 100, 'setup': 200, 'act': 300, 'before-assert': 400, 'assert': 500, 'cleanup': 600}
EXIT_CODE = 7

_X = None  # lazily built namespace of exactly_lib objects and stub classes


class _Ctx:
    log = []
    plan = {}


def _build():
    global _X
    if _X is not None:
        return _X
    from types import SimpleNamespace
    from exactly_lib.execution.full_execution import execution as full
    from exactly_lib.execution.configuration import ExecutionConfiguration
    from exactly_lib.test_case import test_case_doc
    from exactly_lib.test_case.phases.configuration import ConfigurationBuilder, ConfigurationPhaseInstruction
    from exactly_lib.test_case.phases.setup.instruction import SetupPhaseInstruction
    from exactly_lib.test_case.phases.assert_ import AssertPhaseInstruction
    from exactly_lib.test_case.phases.before_assert import BeforeAssertPhaseInstruction
    from exactly_lib.test_case.phases.cleanup import CleanupPhaseInstruction
    from exactly_lib.test_case.phases.act.actor import Actor, ActionToCheck, ParseException
    from exactly_lib.test_case.phases.act.adv_w_validation import AdvWValidation
    from exactly_lib.test_case.result import sh, svh, pfh, eh
    from exactly_lib.test_case.result.failure_details import FailureDetails
    from exactly_lib.test_case.hard_error import HardErrorException
    from exactly_lib.common.report_rendering import text_docs
    from exactly_lib.section_document.model import SectionContents
    from exactly_lib.section_document.element_builder import SectionContentElementBuilder
    from exactly_lib.section_document.source_location import FileLocationInfo
    from exactly_lib.util.line_source import LineSequence
    from exactly_lib.util.name_and_value import NameAndValue
    from exactly_lib.util.symbol_table import SymbolTable
    from exactly_lib.util.file_utils.std import StdOutputFiles
    from exactly_lib.impls.os_services import os_services_access
    from exactly_lib.definitions import os_proc_env
    from exactly_lib.test_case.test_case_status import TestCaseStatus
    from exactly_lib.symbol.sdv_structure import SymbolReference
    from exactly_lib.type_val_deps.sym_ref.w_str_rend_restrictions import reference_restrictions

    msg = text_docs.single_pre_formatted_line_object('m')
    C = _Ctx

    def fault(key):
        C.log.append(key)
        return C.plan.get(key)

    def svh_res(key):
        k = fault(key)
        if k is None:
            return svh.new_svh_success()
        if k == 'VE':
            return svh.new_svh_validation_error(msg)
        if k == 'HEr':
            return svh.new_svh_hard_error(msg)
        if k == 'HEx':
            raise HardErrorException(msg)
        if k == 'EXC':
            raise ZeroDivisionError('injected')
        raise AssertionError(k)

    def sh_res(key):
        k = fault(key)
        if k is None:
            return sh.new_sh_success()
        if k == 'HEr':
            return sh.new_sh_hard_error(msg)
        if k == 'HEx':
            raise HardErrorException(msg)
        if k == 'EXC':
            raise ZeroDivisionError('injected')
        raise AssertionError(k)

    def sym_res(key):
        k = fault(key)
        if k is None:
            return []
        if k == 'UNDEF':
            return [SymbolReference('undefined_sym', reference_restrictions.is_any_type_w_str_rendering())]
        if k == 'EXC':
            raise ZeroDivisionError('injected')
        raise AssertionError(k)

    class Conf(ConfigurationPhaseInstruction):
        def __init__(s, i, status=None):
            s.i = i
            s.status = status

        def main(s, b):
            if s.status is not None:
                b.set_test_case_status(s.status)
            return svh_res(('conf', 'main', s.i))

    class StdinAdv(AdvWValidation):
        def validate(s):
            k = fault(('act', 'exeinput', 0))
            if k is None:
                return None
            if k == 'MSG':
                return msg
            if k == 'EXC':
                raise ZeroDivisionError('injected')
            raise AssertionError(k)

        def resolve(s, environment):
            return None

    class S(SetupPhaseInstruction):
        def __init__(s, i):
            s.i = i

        def symbol_usages(s):
            return sym_res(('setup', 'sym', s.i))

        def validate_pre_sds(s, env):
            return svh_res(('setup', 'pre', s.i))

        def main(s, env, settings, os_services, sb):
            if s.i == 0:
                sb.stdin = StdinAdv()
            return sh_res(('setup', 'main', s.i))

        def validate_post_setup(s, env):
            return svh_res(('setup', 'post', s.i))

    class B(BeforeAssertPhaseInstruction):
        def __init__(s, i):
            s.i = i

        def symbol_usages(s):
            return sym_res(('before-assert', 'sym', s.i))

        def validate_pre_sds(s, env):
            return svh_res(('before-assert', 'pre', s.i))

        def validate_post_setup(s, env):
            return svh_res(('before-assert', 'post', s.i))

        def main(s, env, settings, os_services):
            return sh_res(('before-assert', 'main', s.i))

    class A(AssertPhaseInstruction):
        def __init__(s, i):
            s.i = i

        def symbol_usages(s):
            return sym_res(('assert', 'sym', s.i))

        def validate_pre_sds(s, env):
            return svh_res(('assert', 'pre', s.i))

        def validate_post_setup(s, env):
            return svh_res(('assert', 'post', s.i))

        def main(s, env, settings, os_services):
            k = fault(('assert', 'main', s.i))
            if k is None:
                return pfh.new_pfh_pass()
            if k == 'FAIL':
                return pfh.new_pfh_fail(msg)
            if k == 'HEr':
                return pfh.new_pfh_hard_error(msg)
            if k == 'HEx':
                raise HardErrorException(msg)
            if k == 'EXC':
                raise ZeroDivisionError('injected')
            raise AssertionError(k)

    class Cl(CleanupPhaseInstruction):
        def __init__(s, i):
            s.i = i

        def symbol_usages(s):
            return sym_res(('cleanup', 'sym', s.i))

        def validate_pre_sds(s, env):
            return svh_res(('cleanup', 'pre', s.i))

        def main(s, env, settings, os_services, prev):
            C.log.append(('PREV', prev.name, s.i))
            return sh_res(('cleanup', 'main', s.i))

    class Atc(ActionToCheck):
        def symbol_usages(s):
            return sym_res(('act', 'sym', 0))

        def validate_pre_sds(s, env):
            return svh_res(('act', 'pre', 0))

        def validate_post_setup(s, env):
            return svh_res(('act', 'post', 0))

        def prepare(s, env, os_services):
            return sh_res(('act', 'prepare', 0))

        def execute(s, env, os_services, atc_input, output_files):
            k = fault(('act', 'execute', 0))
            if k is None:
                return eh.new_eh_exit_code(EXIT_CODE)
            if k == 'HEr':
                return eh.new_eh_hard_error(FailureDetails.new_constant_message('m'))
            if k == 'HEx':
                raise HardErrorException(msg)
            if k == 'EXC':
                raise ZeroDivisionError('injected')
            raise AssertionError(k)

    class Act(Actor):
        def parse(s, instructions):
            k = fault(('act', 'parse', 0))
            if k == 'PARSE':
                raise ParseException(msg)
            if k == 'EXC':
                raise ZeroDivisionError('injected')
            if k == 'HEx':
                raise HardErrorException(msg)
            return Atc()

    home = pathlib.Path('/')
    builder = SectionContentElementBuilder(FileLocationInfo(home))

    def sec(instrs, base):
        return SectionContents(tuple(
            builder.new_instruction(LineSequence(base + n, ('line %d' % (base + n),)), ins, None)
            for n, ins in enumerate(instrs)))

    def sds_resolver():
        C.log.append(('SDS', 'create', 0))
        return tempfile.mkdtemp(prefix='sds-')

    def mk_conf(act_only):
        import io
        files = StdOutputFiles(io.StringIO(), io.StringIO()) if act_only else None
        return ExecutionConfiguration(os_proc_env.ENV_VARS_GETTER__DEFAULT, None, 5,
                                      os_services_access.new_for_current_os(),
                                      sds_resolver, 8192, SymbolTable({}), files)

    def mk_case(shape, status):
        nc, ns, nb, na, ncl = shape
        st = {'PASS': TestCaseStatus.PASS, 'FAIL': TestCaseStatus.FAIL, 'SKIP': TestCaseStatus.SKIP,
              None: None}[status]
        confs = [Conf(i, st if i == 0 else None) for i in range(nc)]
        return test_case_doc.TestCase(sec(confs, LINE_BASE['conf']),
                                      sec([S(i) for i in range(ns)], LINE_BASE['setup']),
                                      sec([], LINE_BASE['act']),
                                      sec([B(i) for i in range(nb)], LINE_BASE['before-assert']),
                                      sec([A(i) for i in range(na)], LINE_BASE['assert']),
                                      sec([Cl(i) for i in range(ncl)], LINE_BASE['cleanup']))

    def mk_builder():
        return ConfigurationBuilder(home, home, NameAndValue('stub', Act()))

    _X = SimpleNamespace(full=full, mk_conf=mk_conf, mk_case=mk_case, mk_builder=mk_builder)
    return _X


# --------------------------------------------------------------------------
# space
# --------------------------------------------------------------------------

def points(shape):
    """All (key, kinds) fault points of a shape, in protocol order."""
    nc, ns, nb, na, ncl = shape
    n = {'setup': ns, 'before-assert': nb, 'assert': na, 'cleanup': ncl}
    pts = [(('conf', 'main', i), SVH) for i in range(nc)]
    pts.append((('act', 'parse', 0), ('PARSE', 'EXC', 'HEx')))
    for ph in ('setup',):
        pts += [((ph, 'sym', i), SYM) for i in range(n[ph])]
    pts.append((('act', 'sym', 0), SYM))
    for ph in ('before-assert', 'assert', 'cleanup'):
        pts += [((ph, 'sym', i), SYM) for i in range(n[ph])]
    pts += [(('setup', 'pre', i), SVH) for i in range(ns)]
    pts.append((('act', 'pre', 0), SVH))
    for ph in ('before-assert', 'assert', 'cleanup'):
        pts += [((ph, 'pre', i), SVH) for i in range(n[ph])]
    pts += [(('setup', 'main', i), SH) for i in range(ns)]
    pts += [(('setup', 'post', i), SVH) for i in range(ns)]
    pts.append((('act', 'post', 0), SVH))
    pts += [(('before-assert', 'post', i), SVH) for i in range(nb)]
    pts += [(('assert', 'post', i), SVH) for i in range(na)]
    if ns >= 1:
        pts.append((('act', 'exeinput', 0), ('MSG', 'EXC')))
    pts.append((('act', 'prepare', 0), SH))
    pts.append((('act', 'execute', 0), SH))
    pts += [(('before-assert', 'main', i), SH) for i in range(nb)]
    pts += [(('assert', 'main', i), SH + ('FAIL',)) for i in range(na)]
    pts += [(('cleanup', 'main', i), SH) for i in range(ncl)]
    return pts


def _singles(shape):
    return [((k, kind),) for k, kinds in points(shape) for kind in kinds]


def plans(shape, tier):
    """Deviation-bounded plan enumeration (0 faults first, then 1, then 2, ...)."""
    yield ()
    singles = _singles(shape)
    for p in singles:
        yield p
    cleanup = [p for p in singles if p[0][0][0] == 'cleanup' and p[0][0][1] == 'main']
    fwd = [p for p in singles if not (p[0][0][0] == 'cleanup' and p[0][0][1] == 'main')]
    if tier == 'quick':
        for a in fwd:
            for c in cleanup:
                yield a + c
        # two cleanup-main faults (the second must not be reached)
        for a, c in itertools.combinations(cleanup, 2):
            if a[0][0] != c[0][0]:
                yield a + c
    else:
        for a, c in itertools.combinations(singles, 2):
            if a[0][0] != c[0][0]:
                yield a + c


def shapes(tier):
    base = (2, 2, 2, 2, 2)
    out = [base]
    for pos in range(5):
        for v in (0, 1):
            s = list(base)
            s[pos] = v
            out.append(tuple(s))
    out += [(1, 1, 1, 1, 1), (0, 0, 0, 0, 0), (1, 0, 0, 0, 1), (1, 1, 0, 0, 0), (0, 0, 0, 1, 1)]
    if tier == 'thorough':
        for pos in range(5):
            s = list(base)
            s[pos] = 3
            out.append(tuple(s))
        out += [s for s in itertools.product((0, 1, 2), repeat=5) if s not in out and sum(s) <= 6]
    seen, res = set(), []
    for s in out:
        if s not in seen:
            seen.add(s)
            res.append(s)
    return res


def cli_points():
    pts = [(('conf', 'main', i), SVH) for i in range(2)]
    for ph, mains in (('setup', SH), ('before-assert', SH), ('assert', SH + ('FAIL',))):
        for i in range(2):
            pts += [((ph, 'sym', i), SYM), ((ph, 'pre', i), SVH), ((ph, 'post', i), SVH), ((ph, 'main', i), mains)]
    for i in range(2):
        pts += [(('cleanup', 'sym', i), SYM), (('cleanup', 'pre', i), SVH), (('cleanup', 'main', i), SH)]
    return pts


def cli_cases(tier):
    """Program-level slice: the same fault plans as test-case FILES (stub instruction added to the default instruction set through the
    public MainProgram constructor), run through MainProgram.execute."""
    singles = [((k, kind),) for k, kinds in cli_points() for kind in kinds]
    cleanup = [p for p in singles if p[0][0][:2] == ('cleanup', 'main')]
    for status in (None, 'FAIL', 'SKIP'):
        for mode in ('normal', 'act', 'keep'):
            yield ('cli', status, mode, ())
            for p in singles:
                yield ('cli', status, mode, p)
            if status is None and mode == 'normal':
                for a in singles:
                    if a[0][0][:2] == ('cleanup', 'main'):
                        continue
                    for c in cleanup:
                        yield ('cli', status, mode, a + c)


def cases(tier):
    for c in cli_cases(tier):
        yield c
    for si, shape in enumerate(shapes(tier)):
        statuses = ('PASS', 'FAIL', 'SKIP', None) if shape[0] >= 1 else (None,)
        full = (si == 0)
        for status in statuses:
            for act_only in (False, True):
                for keep in (False, True):
                    if not full and tier == 'quick' and (keep or (act_only and status in ('SKIP', None))):
                        # reduced shapes: quick explores keep=False only (keep is covered on the base shape)
                        continue
                    if tier == 'thorough' and si > 0 and keep and act_only:
                        continue
                    ptier = tier
                    if tier == 'thorough' and (si > 15 or status in ('SKIP', None) or keep or act_only):
                        ptier = 'quick'  # arbitrary pairs only for the main configurations
                    for plan in plans(shape, ptier):
                        yield (shape, status, act_only, keep, plan)
        if tier == 'thorough' and si == 0:
            # triples: two forward faults + one cleanup fault, base shape, status PASS
            singles = _singles(shape)
            cleanup = [p for p in singles if p[0][0][:2] == ('cleanup', 'main')]
            fwd = [p for p in singles if p[0][0][:2] != ('cleanup', 'main')]
            for a, b in itertools.combinations(fwd, 2):
                if a[0][0] == b[0][0]:
                    continue
                for c in cleanup:
                    yield (shape, 'PASS', False, False, a + b + c)


# --------------------------------------------------------------------------
# reference protocol machine (statistic + expected values)
# --------------------------------------------------------------------------

def reference_trace(shape, status, act_only, plan):
    """Predicted full trace of the implementation (used as a statistic and for the state graph)."""
    nc, ns, nb, na, ncl = shape
    plan = dict(plan)
    tr = []

    def do(key):
        tr.append(key)
        return key in plan

    for i in range(nc):
        if do(('conf', 'main', i)):
            return tr
    if status == 'SKIP':
        return tr
    if do(('act', 'parse', 0)):
        return tr
    order = [('setup', ns), ('act', 1), ('before-assert', nb), ('assert', na), ('cleanup', ncl)]
    for ph, n in order:
        for i in range(n):
            if do((ph, 'sym', i)):
                return tr
    for ph, n in order:
        for i in range(n):
            if do((ph, 'pre', i)):
                return tr
    tr.append(('SDS', 'create', 0))

    def cleanup():
        for i in range(ncl):
            if do(('cleanup', 'main', i)):
                return

    for i in range(ns):
        if do(('setup', 'main', i)):
            cleanup()
            return tr
    for ph, n in (('setup', ns), ('act', 1), ('before-assert', nb), ('assert', na)):
        for i in range(n):
            if do((ph, 'post', i)):
                cleanup()
                return tr
    if ns >= 1:
        if do(('act', 'exeinput', 0)):
            cleanup()
            return tr
    for st in ('prepare', 'execute'):
        if do(('act', st, 0)):
            cleanup()
            return tr
    if not act_only:
        for i in range(nb):
            if do(('before-assert', 'main', i)):
                cleanup()
                return tr
        for i in range(na):
            if do(('assert', 'main', i)):
                break
    cleanup()
    return tr


# --------------------------------------------------------------------------
# run + oracle
# --------------------------------------------------------------------------

FWD_PHASE_ORDER = ['setup', 'act', 'before-assert', 'assert', 'cleanup']


def run_cli(case) -> Result:
    from mc import procseam, cli, stubprog
    _, status, mode, plan = case
    plan = tuple((tuple(k), kind) for k, kind in plan)
    pd = dict(plan)
    res = Result()
    res.n = 1
    w = world.get()
    w.reset()
    seam = procseam.install()
    seam.reset()
    seam.default = {'exit': 0}
    lines = []
    for ph in ('conf', 'setup', 'act', 'before-assert', 'assert', 'cleanup'):
        lines.append('[%s]' % ph)
        if ph == 'act':
            lines.append('% atc')
            continue
        if ph == 'conf' and status:
            lines.append('status = ' + status)
        for i in range(2):
            f = [(k, kind) for k, kind in plan if k[0] == ph and k[2] == i]
            lines.append('stub %s %s %s%d' % (f[0][0][1], f[0][1], ph, i) if f else 'stub none OK %s%d' % (ph, i))
    text = '\n'.join(lines) + '\n'
    del stubprog.LOG[:]
    args = {'normal': [], 'act': ['--act'], 'keep': ['--keep']}[mode]
    o = cli.run_case(text, args=args, mp=stubprog.main_program(), real_files=(mode == 'act'))
    log = list(stubprog.LOG)
    prevs = [e[2] for e in log if e[1] == 'PREV']
    trace = []
    for ph, step, tag in log:
        if step == 'PREV':
            continue
        trace.append((ph, step, int(tag[-1])))
    act_ran = any(c['name'] == 'atc' for c in seam.calls)
    errs = []
    if o.exc:
        errs.append('exception: %s' % o.exc)
    reached = [e for e in trace if e in pd]
    steps = trace
    if len(set(steps)) != len(steps):
        errs.append('a step was executed twice: %s' % [e for e in set(steps) if steps.count(e) > 1])
    vals = [e for e in steps if e[1] in ('sym', 'pre')]
    mains = [e for e in steps if e[0] != 'conf' and e[1] in ('main', 'post')]
    if vals and mains and max(steps.index(v) for v in vals) > min(steps.index(m) for m in mains):
        errs.append('I1: a symbol / pre-sds validation step ran after a main / post-setup step')
    order = [FWD_PHASE_ORDER.index(e[0]) for e in steps if e[0] != 'conf' and e[1] == 'main']
    if order != sorted(order):
        errs.append('I2: phases out of order')
    for ph in ('conf', 'setup', 'before-assert', 'assert', 'cleanup'):
        idx = [e[2] for e in steps if e[0] == ph and e[1] == 'main']
        if idx != list(range(len(idx))):
            errs.append('I2: [%s] main steps not in file order: %s' % (ph, idx))
    first = reached[0] if reached else None
    if first is not None:
        after = steps[steps.index(first) + 1:]
        fwd = [e for e in after if not (e[0] == 'cleanup' and e[1] == 'main')]
        if fwd:
            errs.append('I3: forward step(s) after the failure of %s: %s' % (first, fwd[:4]))
        if act_ran and (first[0] in ('conf', 'setup') or first[1] in ('sym', 'pre', 'post')):
            errs.append('I3: the action to check ran although %s failed before it' % (first,))
    sandbox = bool(mains) or act_ran
    cm = [e for e in steps if e[0] == 'cleanup' and e[1] == 'main']
    skipped = status == 'SKIP' and not [f for f in reached if f[0] == 'conf']
    if sandbox:
        cf = [e for e in cm if e in pd]
        want = list(range(cf[0][2] + 1)) if cf else [0, 1]
        if [e[2] for e in cm] != want:
            errs.append('I4: cleanup main steps %s, expected %s exactly once' % ([e[2] for e in cm], want))
        pv = set(prevs)
        fwd_reached = [e for e in reached if not (e[0] == 'cleanup' and e[1] == 'main')]
        allowed = _allowed_prev(fwd_reached[0] if fwd_reached else None, mode == 'act')
        if mode == 'act' and fwd_reached and fwd_reached[0][0] in ('before-assert', 'assert') and fwd_reached[0][1] == 'main':
            allowed = {'ACT'}
        if pv and not pv <= allowed:
            errs.append('I4: cleanup was told previous phase %s, expected %s' % (sorted(pv), sorted(allowed)))
    elif cm:
        errs.append('I4: cleanup main ran although nothing else did')
    # outcome
    if mode == 'normal':
        ident = o.out.strip()
    elif mode == 'keep':
        ident = o.err.split('\n')[0]
    else:
        ident = None
    eff = [f for f in reached if not (mode == 'act' and f[0] in ('before-assert', 'assert') and f[1] == 'main')]
    if ident is not None:
        if skipped:
            allowed_id = {'SKIPPED'}
            if [e for e in steps if e[0] != 'conf']:
                errs.append('I5: status SKIP but steps outside [conf] ran')
        elif eff:
            allowed_id = {STATUS_OF[pd[eff[0]]]} | {STATUS_OF[pd[f]] for f in eff if f[0] == 'cleanup' and f[1] == 'main'}
            if status == 'FAIL':
                allowed_id = {'XFAIL' if a == 'FAIL' else a for a in allowed_id}
        else:
            allowed_id = {'XPASS' if status == 'FAIL' else 'PASS'}
        if ident not in allowed_id:
            errs.append('I5: outcome %s, expected one of %s' % (ident, sorted(allowed_id)))
        if eff and not skipped and ident not in ('PASS', 'XPASS', 'SKIPPED'):
            # the report names the failing step's phase and source line
            cands = [eff[0]] + [f for f in eff if f[0] == 'cleanup' and f[1] == 'main']
            if not any(('In [%s]' % c[0]) in o.err and ('%s%d' % (c[0], c[2])) in o.err for c in cands):
                errs.append('I5: the error report does not name the failing instruction %s: %r' % (cands, o.err[:200]))
    if w.sandboxes() and mode != 'keep':
        errs.append('sandbox not removed')
    res.outcomes[('cli', mode, ident)] += 1
    if reached:
        res.nontrivial += 1
    res.states.add(('cli', mode, ident, bool(reached)))
    if errs:
        res.violation(case, errs, {'file': text, 'trace': trace, 'prev': prevs, 'stdout': o.out[:100], 'stderr': o.err[:300]})
    else:
        res.validated += 1
    return res


def run(case) -> Result:
    if case[0] == 'cli':
        return run_cli(case)
    X = _build()
    shape, status, act_only, keep, plan = case
    plan = tuple((tuple(k), kind) for k, kind in plan)
    w = world.get()
    C = _Ctx
    C.log = []
    C.plan = dict(plan)
    before = set(os.listdir(w.sb))
    cwd_before = os.getcwd()
    res = Result()
    res.n = 1
    exc = None
    r = None
    try:
        r = X.full.execute(X.mk_conf(act_only), X.mk_builder(), keep, X.mk_case(shape, status))
    except Exception as ex:  # noqa
        exc = '%s: %s' % (type(ex).__name__, ex)
    log = C.log
    trace = [e for e in log if e[0] != 'PREV']
    prevs = [e for e in log if e[0] == 'PREV']
    errs = []
    if exc is not None:
        errs.append('exception escaped execute(): ' + exc)
        res.violation(case, errs, {'trace': trace})
        w.restore_process_state()
        world.clear_dir(w.sb)
        return res

    st = r.status.name
    pdict = dict(plan)
    reached = [e for e in trace if e in pdict]
    steps = [e for e in trace if e[0] != 'SDS']
    sds_created = ('SDS', 'create', 0) in trace

    # -- sandbox bookkeeping ---------------------------------------------------
    after = set(os.listdir(w.sb))
    new_dirs = after - before
    if (r.sds is not None) != sds_created:
        errs.append('result.sds %s but sandbox creation %s' % (r.sds, sds_created))
    if keep:
        if sds_created and len(new_dirs) != 1:
            errs.append('keep: expected exactly one sandbox directory, found %s' % sorted(new_dirs))
        if sds_created and r.sds is not None and not os.path.isdir(str(r.sds.root_dir)):
            errs.append('keep: sandbox directory is gone')
    else:
        if new_dirs:
            errs.append('sandbox not removed: %s' % sorted(new_dirs))
    if trace.count(('SDS', 'create', 0)) > 1:
        errs.append('sandbox created more than once')
    if os.getcwd() != cwd_before:
        errs.append('cwd not restored: %s' % os.getcwd())

    # -- no step twice -----------------------------------------------------------
    if len(set(steps)) != len(steps):
        errs.append('a step was executed twice: %s' % [e for e in set(steps) if steps.count(e) > 1])

    mains = [e for e in steps if e[0] != 'conf' and e[1] in ('main', 'prepare', 'execute', 'post', 'exeinput')]
    vals = [e for e in steps if e[1] in ('sym', 'pre')]
    # I1: validation of every phase precedes every main step and the sandbox
    if vals:
        last_val = max(trace.index(v) for v in vals)
        if mains and last_val > min(trace.index(m) for m in mains):
            errs.append('I1: a symbol/pre-sds validation step ran after a main/post-sds step')
        if sds_created and last_val > trace.index(('SDS', 'create', 0)):
            errs.append('I1: a symbol/pre-sds validation step ran after the sandbox was created')
    for e in steps:
        if e[1] == 'pre' and (e[0], 'sym', e[2]) in steps and trace.index((e[0], 'sym', e[2])) > trace.index(e):
            errs.append('I1: pre-sds validation of %s before its symbol validation' % (e,))
    # "earliest failing step" is only meaningful if the validation steps themselves run in execution order of the phases
    # (a definition is visible in all later phases INCLUDING act: symbols of act are validated after setup's, before before-assert's)
    VAL_PHASE_ORDER = ('setup', 'act', 'before-assert', 'assert', 'cleanup')
    for kind in ('sym', 'pre'):
        seq = [(VAL_PHASE_ORDER.index(e[0]), e[2]) for e in steps if e[1] == kind and e[0] in VAL_PHASE_ORDER]
        if seq != sorted(seq):
            errs.append('I1: %s validation steps not in execution order of the phases / file order: %s' % (
                STEP_WORD[kind], [e for e in steps if e[1] == kind]))
    if mains and sds_created and min(trace.index(m) for m in mains) < trace.index(('SDS', 'create', 0)):
        errs.append('I4: post-sds step before sandbox creation')
    if mains and not sds_created:
        errs.append('I4: post-sds steps ran without a sandbox')
    # a fault-free validation must have covered every instruction of every phase before the sandbox
    if sds_created:
        nc, ns, nb, na, ncl = shape
        need = [(ph, stp, i) for ph, n in (('setup', ns), ('before-assert', nb), ('assert', na), ('cleanup', ncl))
                for i in range(n) for stp in ('sym', 'pre')] + [('act', 'sym', 0), ('act', 'pre', 0), ('act', 'parse', 0)]
        missing = [k for k in need if k not in steps]
        if missing:
            errs.append('I1: sandbox created although validation steps were skipped: %s' % missing[:4])

    # I2: forward order
    fwd_mains = [e for e in steps if e[0] != 'conf' and e[1] in ('main', 'prepare', 'execute')]
    order = [FWD_PHASE_ORDER.index(e[0]) for e in fwd_mains]
    if order != sorted(order):
        errs.append('I2: phases out of order: %s' % fwd_mains)
    for ph in FWD_PHASE_ORDER:
        idx = [e[2] for e in fwd_mains if e[0] == ph and e[1] == 'main']
        if idx != list(range(len(idx))):
            errs.append('I2: %s main steps not in file order from the first: %s' % (ph, idx))
    if ('act', 'prepare', 0) in steps and ('act', 'execute', 0) in steps and \
            steps.index(('act', 'prepare', 0)) > steps.index(('act', 'execute', 0)):
        errs.append('I2: act execute before prepare')
    for e in steps:
        if e[1] == 'post':
            later_setup = [m for m in steps[steps.index(e):] if m[0] == 'setup' and m[1] == 'main']
            if later_setup:
                errs.append('I2: post-setup validation before a setup main step')
    # within the conf phase: file order
    cidx = [e[2] for e in steps if e[0] == 'conf']
    if cidx != list(range(len(cidx))):
        errs.append('I2: conf instructions not in file order: %s' % cidx)

    # I3: nothing forward after the first non-success
    first = reached[0] if reached else None
    if first is not None:
        after_first = trace[trace.index(first) + 1:]
        fwd = [e for e in after_first if not (e[0] == 'cleanup' and e[1] == 'main') and e[0] != 'SDS']
        if fwd:
            errs.append('I3: forward step(s) after the failure of %s: %s' % (first, fwd[:4]))
    # completeness of the forward run when nothing failed in it
    fwd_reached = [e for e in reached if not (e[0] == 'cleanup' and e[1] == 'main')]
    if not fwd_reached and status != 'SKIP':
        nc, ns, nb, na, ncl = shape
        expect = [('setup', 'main', i) for i in range(ns)] + [('act', 'prepare', 0), ('act', 'execute', 0)]
        if not act_only:
            expect += [('before-assert', 'main', i) for i in range(nb)] + [('assert', 'main', i) for i in range(na)]
        if [e for e in fwd_mains if e[0] != 'cleanup'] != expect:
            errs.append('I2: fault-free forward run is %s, expected %s' % ([e for e in fwd_mains if e[0] != 'cleanup'], expect))
        if act_only and [e for e in steps if e[0] in ('before-assert', 'assert') and e[1] == 'main']:
            errs.append('act-only mode ran assertion phases')

    # I4: cleanup exactly once, told the previous phase
    cmains = [e for e in steps if e[0] == 'cleanup' and e[1] == 'main']
    ncl = shape[4]
    if sds_created:
        cfail = [e for e in cmains if e in pdict]
        want = list(range(ncl))
        if cfail:
            want = list(range(cfail[0][2] + 1))
        if [e[2] for e in cmains] != want:
            errs.append('I4: cleanup main steps %s, expected instructions %s exactly once' % ([e[2] for e in cmains], want))
        # cleanup is the last thing
        if cmains and [e for e in trace[trace.index(cmains[0]):] if e[0] != 'cleanup']:
            errs.append('I4: non-cleanup step after cleanup started')
        pv = set(p[1] for p in prevs)
        if len(pv) > 1:
            errs.append('I4: previous phase differs between cleanup instructions: %s' % sorted(pv))
        if pv:
            allowed = _allowed_prev(fwd_reached[0] if fwd_reached else None, act_only)
            if not pv <= allowed:
                errs.append('I4: cleanup was told previous phase %s, expected %s' % (sorted(pv), sorted(allowed)))
    else:
        if cmains:
            errs.append('I4: cleanup main ran without a sandbox')

    # I5: outcome
    conf_fail = [f for f in reached if f[0] == 'conf']
    if status == 'SKIP' and not conf_fail:
        if st != 'SKIPPED':
            errs.append('I5: status SKIP but outcome %s' % st)
        if [e for e in steps if e[0] != 'conf']:
            errs.append('I5: status SKIP but steps outside conf ran')
    elif reached:
        allowed = {STATUS_OF[pdict[reached[0]]]} | {STATUS_OF[pdict[f]] for f in reached if f[0] == 'cleanup' and f[1] == 'main'}
        if status == 'FAIL':
            allowed = {'XFAIL' if a == 'FAIL' else a for a in allowed}
        if st not in allowed:
            errs.append('I5: outcome %s, expected one of %s' % (st, sorted(allowed)))
        if st in ('PASS', 'XPASS', 'SKIPPED'):
            errs.append('I5: success outcome %s although step %s failed' % (st, reached[0]))
        fi = r.failure_info
        if fi is None:
            errs.append('I5: no failure_info for a failed execution')
        else:
            named_ok = False
            cands = [reached[0]] + [f for f in reached if f[0] == 'cleanup' and f[1] == 'main']
            got_phase = fi.phase_step.phase.identifier
            got_step = fi.phase_step.step
            got_line = None
            try:
                loc = fi.source_location
                if loc is not None:
                    got_line = loc.location.source.first_line_number
            except Exception as ex:  # noqa
                got_line = 'ERR %s' % ex
            for c in cands:
                ph = 'conf' if c[0] == 'conf' else c[0]
                if got_phase == ph and STEP_WORD[c[1]] in got_step and STATUS_OF[pdict[c]] in (st, 'FAIL' if st == 'XFAIL' else st):
                    if c[0] == 'act' or got_line == LINE_BASE[c[0]] + c[2]:
                        named_ok = True
            if not named_ok:
                errs.append('I5: failure_info names %s/%s line %s with outcome %s; failing steps were %s'
                            % (got_phase, got_step, got_line, st, [(c, pdict[c]) for c in cands]))
    else:
        exp = 'XPASS' if status == 'FAIL' else 'PASS'
        if st != exp:
            errs.append('I5: nothing failed, outcome %s, expected %s' % (st, exp))
        if r.failure_info is not None:
            errs.append('I5: failure_info present although nothing failed')
    # act outcome
    if ('act', 'execute', 0) in steps and ('act', 'execute', 0) not in pdict:
        oc = r.action_to_check_outcome
        if oc is None or oc.exit_code != EXIT_CODE:
            errs.append('action_to_check_outcome %s, expected exit code %d' % (oc and oc.exit_code, EXIT_CODE))
    elif r.action_to_check_outcome is not None:
        errs.append('action_to_check_outcome present although act/execute did not succeed')

    # -- statistics, state graph ----------------------------------------------------
    ref = reference_trace(shape, status, act_only, plan)
    if ref == trace:
        res.validated += 1
    else:
        res.stats['trace differs from reference machine'] += 1
    prev_state = ('INIT',)
    for e in trace:
        s = (e[0], e[1], min(e[2], 2), pdict.get(e, 'ok') if e in pdict else 'ok', bool(first is not None and trace.index(e) > trace.index(first)))
        res.states.add(s)
        res.trans.add((prev_state, s))
        prev_state = s
    fin = ('END', st, sds_created)
    res.states.add(fin)
    res.trans.add((prev_state, fin))
    res.outcomes[(st, None if r.failure_info is None else str(r.failure_info.phase_step), tuple(sorted(set(p[1] for p in prevs))))] += 1
    if reached:
        res.nontrivial += 1
    if plan and not reached:
        res.stats['plans whose faults were all unreachable'] += 1
    if len(reached) >= 2:
        res.stats['executions with >=2 faults reached'] += 1
    if not res.samples and plan:
        res.samples.append({'case': case, 'trace': trace, 'prev': [p[1] for p in prevs], 'outcome': st})

    if errs:
        res.violation(case, errs, {'trace': trace, 'prevs': prevs, 'status': st})
    if keep and r.sds is not None:
        world.clear_dir(w.sb)
    if os.getcwd() != cwd_before:
        w.restore_process_state()
    return res


def _allowed_prev(first_fwd_failure, act_only):
    if first_fwd_failure is None:
        return {'ACT'} if act_only else {'ASSERT'}
    ph, stp, _ = first_fwd_failure
    if stp == 'main':
        return {{'setup': 'SETUP', 'before-assert': 'BEFORE_ASSERT', 'assert': 'ASSERT'}[ph]}
    if stp == 'execute':
        return {'ACT'}
    if stp in ('post', 'exeinput', 'prepare'):
        return {'SETUP', 'ACT'}
    return {'SETUP', 'ACT', 'BEFORE_ASSERT', 'ASSERT'}
