"""C13 — `filter` keeps exactly the accepted lines; the read-ahead interval loses no line (DESIGN §3 C13).

S-LIB: `filter LM` / `filter -line-nums` built by the real parsers, applied to every text of 0..N lines.
Oracles: (a) reference per-line evaluation (mc/ref/text.py) and, differentially, the *same real matcher*
applied to each single line; (b) accepted line numbers are inside interval_of_matcher(matcher);
(c) range lists by the documented range semantics.  CLI slice through stdout/equals.
"""
import itertools

from mc import world, procseam, cli, lib
from mc.ref import text as R
from mc.result import Result

PROPERTY = 'C13'
LEVEL = 'exploration'
CASE_GUARD_S = {'quick': 300, 'thorough': 3600}  # a case is a composite (a block of expressions x all texts, ...)
CHUNK = 3
RULE = ('line-matcher trees: line-num with integer-matcher trees of depth <= 2 (6 operators, operands from -1 to N+2, constants, !, &&, ||), '
        'line-level trees of depth <= 2 (thorough 3) over line-num comparisons, contents matchers and constants, mixed trees and their '
        'negations; range lists of <= 2 ranges, 3 over a reduced set (thorough: <= 3, and 4 over a reduced bound set) of the four forms with bounds in [-N-2, N+2]; '
        'each applied to every text of 0..N lines (two a/b patterns, with and without final newline), N = 6 (thorough 9); '
        'non-trivial = the expression keeps some but not all lines of at least one text; expressions are deduplicated by their source text')
ASSUMPTIONS = [
    'line contents over {a, b}; regexes in contents matchers are literals (regex semantics are C05\'s)',
    'interval_of_matcher is observed through its public surface (is_empty / lower / upper)',
]

OPS = ('==', '!=', '<', '<=', '>', '>=')


def N_of(tier):
    return 6 if tier == 'quick' else 9


def texts(tier):
    n = N_of(tier)
    pat1 = 'ab' * 10
    pat2 = 'baabbabaab' * 2
    out = []
    for k in range(0, n + 1):
        for pat in (pat1, pat2):
            t = ''.join(pat[i] + '\n' for i in range(k))
            out.append(t)
            if t:
                out.append(t[:-1])
    seen, res = set(), []
    for t in out:
        if t not in seen:
            seen.add(t)
            res.append(t)
    return res


def _bin(xs, ys):
    for x in xs:
        for y in ys:
            yield ('and', [x, y])
            yield ('or', [x, y])


def _nested_negations(xs):
    out = [('not', ('not', x)) for x in xs] + [('not', ('not', ('not', x))) for x in xs]
    out += [('not', y) for y in _bin([('not', x) for x in xs], xs)]
    out += [('not', y) for y in _bin(xs, [('not', x) for x in xs])]
    out += [('not', ('not', y)) for y in _bin(xs, xs)]
    return out


def im_trees(tier):
    n = N_of(tier)
    ks = sorted({-1, 0, 1, 2, 3, n - 1, n, n + 1, n + 2})
    leaves = [('cmp', op, k) for op in OPS for k in ks] + [('const', True), ('const', False)]
    rl = [('cmp', op, k) for op in OPS for k in (2, n - 1)] + [('const', True), ('const', False)]
    rl6 = [('cmp', '<=', 2), ('cmp', '>=', n - 1), ('cmp', '==', 3), ('cmp', '!=', 4), ('cmp', '<', n), ('cmp', '>', 1)]
    out = list(leaves)
    out += [('not', x) for x in rl]
    d1 = list(_bin(rl, rl))
    out += d1
    out += [('not', x) for x in d1]
    d1r = list(_bin(rl6, rl6))
    out += list(_bin(d1r, rl6))
    out += list(_bin(rl6, d1r))
    out += list(_bin([('not', x) for x in rl6], rl6))
    # negation below a negation (the interval of `! ! M` is that of M; of `! ( A || ! M )` that of `! A && M`)
    out += _nested_negations(rl)
    if tier == 'thorough':
        out += [('not', x) for x in _bin(d1r, rl6)]
        out += list(_bin(d1r, d1r))
        out += list(_bin([('not', x) for x in d1r], rl6))
    return out


def lm_trees(tier):
    n = N_of(tier)
    out = []
    ims = im_trees(tier)
    out += [('line-num', im) for im in ims]
    out += [('not', ('line-num', im)) for im in ims]
    A = ('contents', ('matches', False, False, 'a'))
    B = ('contents', ('equals', 'str', 'b'))
    ll = [('line-num', ('cmp', op, k)) for op in OPS for k in (2, n - 1)] + [A, B, ('const', True), ('const', False)]
    ll8 = [('line-num', ('cmp', '<=', 2)), ('line-num', ('cmp', '>=', n - 1)), ('line-num', ('cmp', '==', 3)),
           ('line-num', ('cmp', '!=', 4)), ('line-num', ('cmp', '>', 1)), A, ('const', True), ('const', False)]
    out += [('not', x) for x in ll]
    d1 = list(_bin(ll, ll))
    out += d1
    out += [('not', x) for x in d1]
    d1r = list(_bin(ll8, ll8))
    out += list(_bin(d1r, ll8))
    out += list(_bin(ll8, d1r))
    out += list(_bin([('not', x) for x in ll8], ll8))
    out += [('not', x) for x in _bin(d1r, ll8)]
    out += _nested_negations(ll)
    # mixed levels: line-level operators over line-num with an integer-level tree
    rl6 = [('cmp', '<=', 2), ('cmp', '>=', n - 1), ('cmp', '==', 3), ('cmp', '!=', 4), ('cmp', '<', n), ('cmp', '>', 1)]
    imd1 = [('line-num', x) for x in _bin(rl6, rl6)] + [('line-num', ('not', x)) for x in rl6]
    out += list(_bin(imd1, ll8))
    out += list(_bin(ll8, imd1))
    out += [('not', x) for x in _bin(imd1, ll8)]
    if tier == 'thorough':
        out += list(_bin(d1r, d1r))
        out += [('not', x) for x in _bin(d1r, d1r)]
        out += list(_bin(imd1, imd1))
        out += list(_bin([('not', x) for x in imd1], ll8))
    seen, res = set(), []
    for x in out:
        s = R.render_lm(x)
        if s not in seen:
            seen.add(s)
            res.append(x)
    return res


def single_ranges(bounds):
    rs = []
    for a in bounds:
        rs += [('p', a), ('u', a), ('l', a)]
    for a in bounds:
        for b in bounds:
            rs.append(('f', a, b))
    return rs


def range_lists(tier):
    out = []
    if tier == 'quick':
        n = 4
        b = list(range(-n - 2, n + 3))
        rs = single_ranges(b)
        out += [(n, [r]) for r in rs]
        red = single_ranges([-n - 1, -2, -1, 0, 1, 2, n, n + 1])
        out += [(n, [r1, r2]) for r1 in red for r2 in red]
        red3 = [('p', 1), ('p', -1), ('u', 2), ('l', 3), ('l', -2), ('f', 2, 3), ('f', -3, -2), ('f', 3, 2), ('p', 0)]
        out += [(n, [a, b, c]) for a in red3 for b in red3 for c in red3]
    else:
        n = 4
        b = list(range(-n - 2, n + 3))
        rs = single_ranges(b)
        out += [(n, [r]) for r in rs]
        out += [(n, [r1, r2]) for r1 in rs for r2 in rs]
        red = single_ranges([-n - 1, -1, 0, 1, 2, n, n + 1])
        out += [(n, [r1, r2, r3]) for r1 in red for r2 in red for r3 in red]
        red4 = [('p', 0), ('p', 2), ('p', -1), ('u', 1), ('u', -2), ('l', 3), ('l', -1), ('f', 2, 3), ('f', -3, -2), ('f', 3, 2), ('f', 2, -2), ('p', n + 1)]
        out += [(n, [a, b_, c, d]) for a in red4 for b_ in red4 for c in red4 for d in red4]
    return out


_T = {}


def prepare(tier):
    cli.main_program()
    procseam.install()
    lib.parsers('text-transformer')
    lib.parsers('line-matcher')
    from exactly_lib.impls.types.line_matcher import line_nums_interval  # noqa
    _T['lm'] = lm_trees(tier)
    _T['texts'] = texts(tier)
    _T['ranges'] = range_lists(tier)
    _T['tier'] = tier


LM_BLOCK = 60
RG_BLOCK = 400


def cases(tier):
    nl = len(lm_trees(tier))
    for i in range(0, nl, LM_BLOCK):
        yield ('lm', i, min(i + LM_BLOCK, nl))
    nr = len(range_lists(tier))
    for i in range(0, nr, RG_BLOCK):
        yield ('ranges', i, min(i + RG_BLOCK, nr))
    for i in range(0, nl, 1500):
        yield ('cli', i, min(i + 1500, nl))


def run(case) -> Result:
    res = Result()
    k = case[0]
    if k == 'lm':
        for ast in _T['lm'][case[1]:case[2]]:
            _one_lm(res, ast, _T['texts'])
    elif k == 'lm-one':
        _one_lm(res, case[1], _T['texts'])
    elif k == 'ranges':
        for n, rl in _T['ranges'][case[1]:case[2]]:
            _one_ranges(res, n, rl)
    elif k == 'ranges-one':
        _one_ranges(res, case[1], case[2])
    elif k == 'cli':
        _cli(res, case)
    return res


def _one_lm(res, ast, txts):
    from exactly_lib.impls.types.line_matcher import line_nums_interval
    E = lib.env()
    src = R.render_lm(ast)
    one = ('lm-one', ast)
    try:
        tr = E.primitive(lib.parsers('text-transformer').full, 'filter ' + R.render_lm(ast, simple=True))
        lm = E.primitive(lib.parsers('line-matcher').full, src)
    except Exception as ex:  # noqa
        res.n += 1
        res.violation(one, ['%r rejected: %s: %s' % (src, type(ex).__name__, ex)])
        return
    try:
        iv = line_nums_interval.interval_of_matcher(lm)
        if iv.is_empty:
            ivd = 'empty'
            inside = lambda i: False
        else:
            lo, up = iv.lower, iv.upper
            ivd = (lo, up)
            inside = lambda i: (lo is None or i >= lo) and (up is None or i <= up)
    except Exception as ex:  # noqa
        res.violation(one, ['interval_of_matcher(%s) raised %s: %s' % (src, type(ex).__name__, ex)])
        return
    partial = False
    for t in txts:
        ls = R.lines(t)
        models = R.line_models(t)
        exp_keep = [R.ev_lm(ast, m) for m in models]
        exp = ''.join(l for l, k in zip(ls, exp_keep) if k)
        E.new_space()
        res.n += 1
        try:
            got = tr.transform(E.model_str(t)).contents().as_str
        except Exception as ex:  # noqa
            got = 'EXC %s: %s' % (type(ex).__name__, ex)
        if got != exp:
            res.violation(one, ['filter %s on %r: got %r, per-line evaluation gives %r' % (src, t, got, exp)])
        # file-backed model (the read-ahead works on an open file there)
        fp = E.write_act('lm-model.txt', t)
        res.n += 1
        try:
            got_f = tr.transform(E.model_file(fp)).contents().as_str
        except Exception as ex:  # noqa
            got_f = 'EXC %s: %s' % (type(ex).__name__, ex)
        if got_f != exp:
            res.violation(one, ['filter %s on a FILE holding %r: got %r, per-line evaluation gives %r' % (src, t, got_f, exp)])
        # the same real matcher, line by line
        real_keep = []
        for m in models:
            try:
                real_keep.append(lm.matches_w_trace(m).value)
            except Exception as ex:  # noqa
                real_keep.append('EXC %s' % ex)
        if real_keep != exp_keep:
            res.violation(one, ['line matcher %s applied to the single lines of %r gives %s, reference %s' % (src, t, real_keep, exp_keep)])
        for (i, _), k in zip(models, exp_keep):
            if k and not inside(i):
                res.violation(one, ['interval_of_matcher(%s) = %s does not contain accepted line number %d' % (src, ivd, i)])
                break
        if any(exp_keep) and not all(exp_keep):
            partial = True
        res.outcomes[('lm', len(exp) == len(t), exp == '')] += 1
    # beyond the texts: accepted line numbers up to N+3 (line contents 'a')
    n = N_of(_T['tier'])
    for i in range(1, n + 4):
        for c in ('a', 'b'):
            if R.ev_lm(ast, (i, c)) and not inside(i):
                res.violation(one, ['interval_of_matcher(%s) = %s does not contain accepted line number %d' % (src, ivd, i)])
                break
    if partial:
        res.nontrivial += 1
    if not res.samples and partial:
        res.samples.append({'expression': 'filter ' + src, 'interval': str(ivd), 'text': txts[-1], 'output': R.ev_tt(('filter', ast), txts[-1])})


def _one_ranges(res, n, rl):
    E = lib.env()
    ast = ('line-nums', rl)
    src = R.render_tt(ast)
    one = ('ranges-one', n, rl)
    try:
        tr = E.primitive(lib.parsers('text-transformer').full, src)
    except Exception as ex:  # noqa
        res.n += 1
        res.violation(one, ['%r rejected: %s: %s' % (src, type(ex).__name__, ex)])
        return
    partial = False
    for k in range(0, n + 1):
        for nl in (True, False):
            t = ''.join('L%d\n' % i for i in range(1, k + 1))
            if not nl:
                if not t:
                    continue
                t = t[:-1]
            exp = R.ev_tt(ast, t)
            E.new_space()
            res.n += 1
            try:
                got = tr.transform(E.model_str(t)).contents().as_str
            except Exception as ex:  # noqa
                got = 'EXC %s: %s' % (type(ex).__name__, ex)
            if got != exp:
                res.violation(one, ['%s on %r: got %r, documented ranges give %r' % (src, t, got, exp)])
            # file-backed model too
            p = E.write_act('rng.txt', t)
            try:
                got2 = tr.transform(E.model_file(p)).contents().as_str
            except Exception as ex:  # noqa
                got2 = 'EXC %s: %s' % (type(ex).__name__, ex)
            res.n += 1
            if got2 != exp:
                res.violation(one, ['%s on file %r: got %r, documented ranges give %r' % (src, t, got2, exp)])
            if exp and exp != t:
                partial = True
            res.outcomes[('ranges', exp == t, exp == '')] += 1
    if partial:
        res.nontrivial += 1


def _cli(res, case):
    """`stdout -transformed-by filter ... equals ...` for a slice of the expressions (every 7th), one text per case."""
    w = world.get()
    seam = procseam.SEAM
    exprs = _T['lm'][case[1]:case[2]][::7]
    n = N_of(_T['tier'])
    for t in (''.join('ab'[i % 2] + '\n' for i in range(n)), ''.join('ba'[i % 2] + '\n' for i in range(n - 1)) + 'a'):
        B = 50
        for i in range(0, len(exprs), B):
            w.reset()
            seam.reset()
            seam.script['atc'] = {'out': t}
            setup, asserts = [], []
            for j, ast in enumerate(exprs[i:i + B]):
                exp = R.ev_tt(('filter', ast), t)
                w.write('exp%d.txt' % j, exp)
                setup.append('copy exp%d.txt' % j)
                asserts.append('stdout -transformed-by filter %s equals -contents-of -rel-act exp%d.txt' % (R.render_lm(ast, simple=True), j))
            text = '\n'.join(['[setup]'] + setup + ['[act]', '% atc', '[assert]'] + asserts) + '\n'
            o = cli.run_case(text)
            res.n += len(asserts)
            res.outcomes[('cli', o.ident)] += 1
            if o.rc != 0 or o.out != 'PASS\n' or o.exc:
                # find the failing expression for the report
                res.violation(case, ['CLI slice: expected PASS, got rc=%s %s' % (o.rc, o.out.strip()), ' / '.join(cli.stderr_lines(o.err)[:6])], {'file': text[:3000]})
