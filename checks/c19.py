"""C19 — timeouts are enforced on every OS process; Exactly never waits indefinitely (DESIGN §3 C19).

Virtual part: S-CLI + S-PROC with a virtual clock: place x child duration class x timeout history.
Real slice: the compiled probe (sleeps, optionally ignoring SIGTERM) started from 8 places with `timeout = 1`.
"""
import os
import time

from mc import world, procseam, cli
from mc.result import Result

PROPERTY = 'C19'
LEVEL = 'model_checking'
CHUNK = 8
RULE = ('place of the process start (37 places: run/$/% in setup, before-assert, assert, cleanup; -stdout-from in file / stdin = / env / equals; run text transformer, '
        'run text matcher, run file matcher; the action to check under the command-line, shell, file-interpreter and source-interpreter forms) x duration of the '
        'child relative to the timeout in force {T-1, T, T+1, T-1 with 200 kB of output on stdout and 100 kB on stderr (a pipe nobody reads would block it), never ends, never ends and ignores SIGTERM, never ends and a second never-ending process in [cleanup]} x timeout history {default only, set before (T=0, 1, 5), set after, none before, T then none, '
        'none then T, set in an earlier phase, T then T2; for the 5 places whose process starts later than the instruction naming it: set between the two (4 histories)}; lifecycle states (running, timed-out, cleanup, ended) x place are the graph; plus 7 places under --act; plus a real-process slice '
        '(8 places x {plain sleeper, SIGTERM-ignoring sleeper}); non-trivial = the child outlives the timeout or there is no timeout')
ASSUMPTIONS = [
    'virtual clock: a child of duration d started with timeout t raises TimeoutExpired iff d > t, exactly as subprocess.call does',
    'kernel facts (signal delivery, wait returning) are trusted to Python\'s subprocess and sampled only by the real slice',
]

INF = procseam.INF
VERIF = os.path.dirname(os.path.dirname(os.path.abspath(__file__)))
PROBE = os.path.join(VERIF, 'build', 'probe')

# place -> (phase where the error is reported (set), conf lines, setup lines, act lines, before-assert, assert, cleanup)
#   `P` is replaced by the child program (name `slow` in the virtual part)
PLACES = {
    'setup-run': (('setup',), {'setup': ['run % P']}),
    'setup-shell': (('setup',), {'setup': ['$ P']}),
    'setup-percent': (('setup',), {'setup': ['% P']}),
    'setup-file-stdout-from': (('setup',), {'setup': ['file out.txt = -stdout-from % P']}),
    'setup-stdin-stdout-from': (('setup', 'act'), {'setup': ['stdin = -stdout-from % P']}),
    'setup-env-stdout-from': (('setup',), {'setup': ['env V = -stdout-from % P']}),
    'act-command-line': (('act',), {'act': ['% P']}),
    'act-shell': (('act',), {'act': ['$ P']}),
    'act-file-interpreter': (('act',), {'conf': ['actor = file % P'], 'act': ['src.txt'], 'files': {'src.txt': 'source\n'}}),
    'act-source-interpreter': (('act',), {'conf': ['actor = source % P'], 'act': ['some source code']}),
    'before-assert-run': (('before-assert',), {'before-assert': ['run % P']}),
    'before-assert-shell': (('before-assert',), {'before-assert': ['$ P']}),
    'assert-run': (('assert',), {'assert': ['run % P']}),
    'assert-run-transformer': (('assert',), {'assert': ['stdout -transformed-by ( run % P ) ! is-empty']}),
    'assert-run-text-matcher': (('assert',), {'assert': ['stdout ( run % P )']}),
    'assert-run-file-matcher': (('assert',), {'setup': ['file f.txt'], 'assert': ['exists f.txt : ( run % P )']}),
    'assert-equals-stdout-from': (('assert',), {'assert': ['stdout ! equals -stdout-from % P']}),
    'assert-exit-code-from': (('assert',), {'assert': ['exit-code -from % P\n   == 0']}),
    'assert-stdout-from': (('assert',), {'assert': ['stdout -from % P\n   ! is-empty']}),
    'setup-env-of-act': (('setup',), {'setup': ['env -of act V = -stdout-from % P']}),
    'setup-env-of-non-act': (('setup',), {'setup': ['env -of !act V = -stdout-from % P']}),
    'before-assert-env': (('before-assert',), {'before-assert': ['env V = -stdout-from % P']}),
    'setup-dir-file-stdout-from': (('setup',), {'setup': ['dir dd = {\n file x.txt = -stdout-from % P\n}']}),
    'act-stdin-from-program': (('act', 'setup'), {'act': ['% atc\n   -stdin -stdout-from % P']}),
    'setup-program-symbol': (('setup',), {'setup': ['def program XS = % P', 'run @ XS arg']}),
    # deferred starts: the instruction stands in [setup], the process is started later (the timeout in force is the one at the START)
    'setup-def-program-used-in-assert': (('assert',), {'setup': ['def program XD = % P'], 'assert': ['run @ XD']}),
    'setup-def-text-source-used-in-assert': (('assert',), {'setup': ['def text-source TS = -stdout-from % P'], 'assert': ['stdout ! equals @[TS]@']}),
    'setup-def-text-matcher-used-in-assert': (('assert',), {'setup': ['def text-matcher TM = run % P'], 'assert': ['stdout @[TM]@']}),
    'setup-def-text-transformer-used-in-before-assert': (('before-assert',), {'setup': ['def text-transformer TT = run % P'],
                                                                           'before-assert': ["file t.txt = -contents-of -rel-result stdout -transformed-by TT"]}),
    # -ignore-exit-code ignores the exit code of a process that ENDED - not a timeout
    'setup-run-ignore-exit-code': (('setup',), {'setup': ['run -ignore-exit-code % P']}),
    'setup-file-stdout-from-ignore-exit-code': (('setup',), {'setup': ['file out.txt = -stdout-from -ignore-exit-code % P']}),
    'setup-file-transformed-by-run-ignore-exit-code': (('setup',), {'setup': ["file o.txt = 'x' -transformed-by run -ignore-exit-code % P"]}),
    'assert-run-transformer-ignore-exit-code': (('assert',), {'assert': ['stdout -transformed-by ( run -ignore-exit-code % P ) ! is-empty']}),
    'act-transformed-by-run-ignore-exit-code': (('act',), {'act': ['% atc\n   -transformed-by run -ignore-exit-code % P']}),
    'cleanup-file-stdout-from': (('cleanup',), {'cleanup': ['file cl.txt = -stdout-from % P']}),
    'cleanup-shell': (('cleanup',), {'cleanup': ['$ P']}),
    'cleanup-run': (('cleanup',), {'cleanup': ['run % P']}),
}
PHASE_ORDER = ('conf', 'setup', 'act', 'before-assert', 'assert', 'cleanup')

# timeout histories: list of (where, value) ; where in 'before' (start of [setup], or [conf]-less earliest point), 'after' (end of [cleanup])
HISTORIES = {
    'default': ([], 60),
    'set-1-before': ([('setup', 1)], 1),
    'set-5-before': ([('setup', 5)], 5),
    'set-0-before': ([('setup', 0)], 0),          # the smallest legal value is a limit too
    'set-1-after': ([('after', 1)], 60),
    'none-before': ([('setup', None)], None),
    '5-then-none': ([('setup', 5), ('setup', None)], None),
    'none-then-5': ([('setup', None), ('setup', 5)], 5),
    '1-then-7': ([('setup', 1), ('setup', 7)], 7),
    'same-phase-just-before': ([('same', 5)], 5),
}
# timeouts set AFTER the instruction that names the program but BEFORE the process is started (only for the deferred places)
DEFERRED = ('setup-stdin-stdout-from', 'setup-def-program-used-in-assert', 'setup-def-text-source-used-in-assert', 'setup-def-text-matcher-used-in-assert',
            'setup-def-text-transformer-used-in-before-assert')
HISTORIES.update({
    'post-1': ([('post', 1)], 1),
    '1-then-post-20': ([('setup', 1), ('post', 20)], 20),
    '5-then-post-none': ([('setup', 5), ('post', None)], None),
    'none-then-post-5': ([('setup', None), ('post', 5)], 5),
})
DURS = ('T-1', 'T', 'T+1', 'inf', 'inf-ignore-term', 'inf-and-cleanup-inf', 'T-1-big-output')
BIG_OUT = 'a line of the output of a talkative child process\n' * 4200     # > 200 kB: more than any pipe buffer holds


def prepare(tier):
    cli.main_program()
    procseam.install()


def cases(tier):
    real_places = ('setup-run', 'act-command-line', 'act-shell', 'before-assert-shell', 'assert-run-transformer', 'assert-equals-stdout-from',
                   'cleanup-run', 'setup-env-stdout-from')
    if os.path.exists(PROBE):
        for p in real_places:
            for variant in ('sleep', 'ignore-term'):
                yield ('real', p, variant)
    for place in ACT_MODE_PLACES:
        for d in ('inf', 'inf-ignore-term'):
            yield ('act-mode', place, d)
    for place in PLACES:
        for h in HISTORIES:
            if 'post' in h and place not in DEFERRED:
                continue
            for d in DURS:
                if d == 'inf-and-cleanup-inf' and place.startswith('cleanup-'):
                    continue  # (the slow cleanup probe would come first and the place would never be reached)
                yield ('virt', place, h, d)


ACT_MODE_PLACES = ('setup-run', 'setup-stdin-stdout-from', 'act-command-line', 'act-shell', 'cleanup-run', 'cleanup-shell', 'cleanup-file-stdout-from')


def run_act_mode(case) -> Result:
    """The same with --act (only [setup], the action and [cleanup] run; the identifier goes to stderr): a process that exceeds the timeout is
    reported as HARD_ERROR / 128 - also when it is in [cleanup], after the action has completed."""
    _, place, dur = case
    res = Result()
    res.n = 1
    res.nontrivial += 1
    w = world.get()
    w.reset()
    seam = procseam.SEAM
    seam.reset()
    text, place_phase, in_force, reported, files = build(place, 'set-1-before', 'slow')
    seam.script['slow'] = {'dur': INF, 'out': 'slow output\n', 'ignore_term': dur == 'inf-ignore-term'}
    seam.script['atc'] = {'out': 'act out\n'}
    o = cli.run_case(text, args=['--act'], real_files=True)
    errs = []
    if o.hang or o.exc:
        errs.append('exception / hang: %s' % o.exc)
    first_err = (o.err.split('\n') or [''])[0]
    if o.rc != 128 or 'HARD_ERROR' not in o.err.split('\n'):
        errs.append('--act: the process at %s exceeds the timeout: expected exit 128 and the identifier HARD_ERROR on stderr; got rc=%s, stderr starts %r, stdout %r' % (
            place, o.rc, o.err[:120], o.out[:60]))
    names = [c['name'] for c in seam.calls]
    if place_phase != 'cleanup' and 'cleanup-probe' not in names:
        errs.append('--act: [cleanup] was not run after the timeout (processes: %s)' % names)
    if w.sandboxes():
        errs.append('--act: sandbox not removed: %s' % w.sandboxes())
    res.outcomes[('act-mode', o.rc)] += 1
    res.states.add((place, 'act-mode-timed-out'))
    if errs:
        res.violation(case, errs, {'file': text, 'stderr': o.err[:400]})
    else:
        res.validated += 1
    return res


def build(place, hist, prog):
    reported, spec = PLACES[place]
    ph = {p: list(spec.get(p, [])) for p in PHASE_ORDER}
    ph = {p: [l.replace('P', prog) if 'P' in l.split() or l.endswith(' P') or ' P ' in l else l for l in ls] for p, ls in ph.items()}
    place_phase = [p for p in PHASE_ORDER if spec.get(p) and p not in ('conf',)][-1] if place != 'assert-run-file-matcher' else 'assert'
    if place.startswith('act-'):
        place_phase = 'act'
    events, in_force = HISTORIES[hist]
    pre = []
    for where, v in events:
        line = 'timeout = %s' % ('none' if v is None else v)
        if where == 'setup':
            pre.append(line)
        elif where == 'after':
            ph['cleanup'].append(line)
        elif where == 'post':
            ph['setup'].append(line)  # right after the instruction of a deferred place (ph['setup'] holds only the place's lines here)
        elif where == 'same':
            if place_phase in ('act', 'conf'):
                pre.append(line)
            else:
                ph[place_phase].insert(len(ph[place_phase]) - 1, line)
    ph['setup'] = pre + ['run % first-probe'] + ph['setup']
    if not ph['act']:
        ph['act'] = ['% atc']
    # observers: a probe after the place in every later phase, and the cleanup probe first in [cleanup]
    ph['before-assert'].append('run % ba-probe')
    ph['assert'].append('run % as-probe')
    ph['cleanup'].insert(0, 'run % cleanup-probe')
    lines = []
    for p in PHASE_ORDER:
        lines.append('[%s]' % p)
        lines += ph[p]
    return '\n'.join(lines) + '\n', place_phase, in_force, reported, spec.get('files', {})


def run(case) -> Result:
    if case[0] == 'real':
        return run_real(case)
    if case[0] == 'act-mode':
        return run_act_mode(case)
    _, place, hist, dur = case
    res = Result()
    res.n = 1
    w = world.get()
    w.reset()
    seam = procseam.SEAM
    seam.reset()
    text, place_phase, in_force, reported, files = build(place, hist, 'slow')
    T = in_force
    if dur in ('inf', 'inf-ignore-term', 'inf-and-cleanup-inf'):
        d = INF
    elif T is None:
        d = {'T-1': 59, 'T': 60, 'T+1': 100000, 'T-1-big-output': 59}[dur]
    else:
        d = {'T-1': max(0, T - 1), 'T': T, 'T+1': T + 1, 'T-1-big-output': max(0, T - 1)}[dur]
    seam.script['slow'] = {'dur': d, 'out': 'slow output\n', 'ignore_term': dur == 'inf-ignore-term',
                           # what a child that is killed has already written (both streams): output is no excuse for a timeout
                           'out_before_timeout': 'partial output written before the timeout\n'}
    if dur == 'T-1-big-output':
        # a child that ends in time but writes a lot on both streams: wherever its output goes, it must be able to finish
        seam.script['slow'].update(out=BIG_OUT, err=BIG_OUT[:100000])
    seam.script['atc'] = {'out': 'act out\n'}
    double = dur == 'inf-and-cleanup-inf'
    if double:
        # a second process, in [cleanup], exceeds the timeout too: still HARD_ERROR, sandbox removed, bounded time
        seam.script['cleanup-probe'] = {'dur': INF, 'out': ''}
    o = cli.run_case(text, files={'src.txt': 'source\n'} if files else None)
    errs = []
    slow = [c for c in seam.calls if c['name'] == 'slow' or (c['shell'] and 'slow' in str(c['args'])) or 'slow' in [os.path.basename(str(a)) for a in (c['args'] if isinstance(c['args'], list) else [])]]
    names = [c['name'] for c in seam.calls]
    expect_timeout = T is not None and d > T
    expect_hang = T is None and d == INF
    # every start carries the timeout in force
    for c in seam.calls:
        want = in_force
        if c['name'] == 'first-probe' or True:
            pass
    for c in slow:
        if c['timeout'] != in_force:
            errs.append('the process at %s was started with timeout=%s, the timeout in force there is %s' % (place, c['timeout'], in_force))
    if not slow:
        errs.append('the process at %s was never started (calls: %s)' % (place, names))
    if len(slow) > 1 and not place.startswith('setup-env'):
        errs.append('the process at %s was started %d times' % (place, len(slow)))
    states = ['running']
    if expect_hang:
        states.append('waits-for-ever')
        if not o.hang:
            errs.append('a child that never ends was started with timeout = none: exactly must wait (VirtualHang), got rc=%s %s' % (o.rc, o.out.strip()))
    elif expect_timeout:
        states += ['timed-out', 'cleanup', 'ended']
        if o.hang or o.exc:
            errs.append('exception / hang: %s' % o.exc)
        if o.rc != 128 or o.out != 'HARD_ERROR\n':
            errs.append('child exceeds the timeout (%s > %s) at %s: expected HARD_ERROR/128, got rc=%s %s' % (d, T, place, o.rc, o.out.strip()))
        else:
            hdr = [l for l in o.err.split('\n') if l.startswith('In [')]
            if not hdr or hdr[0][4:].split(']')[0] not in (tuple(reported) + (('cleanup',) if double else ())):
                errs.append('HARD_ERROR reported %s, expected in %s' % (hdr[:1], reported))
        # no forward process after the timed-out one, but cleanup's are started
        if slow:
            after = names[seam.calls.index(slow[-1]) + 1:]
            fwd = [n for n in after if n in ('ba-probe', 'as-probe', 'atc') or (n == 'slow')]
            if place_phase != 'cleanup':
                if fwd:
                    errs.append('processes %s were started after the timed-out step' % fwd)
                if 'cleanup-probe' not in after:
                    errs.append('[cleanup] was not run after the timeout (processes after it: %s)' % after)
        tot = sum((c['timeout'] or 0) for c in seam.calls)
        if seam.clock > tot + 1e-9:
            errs.append('virtual time %s exceeds the sum of the timeouts of the started processes %s' % (seam.clock, tot))
    else:
        states += ['completed', 'cleanup', 'ended']
        if o.hang or o.exc:
            errs.append('exception / hang: %s' % o.exc)
        if o.rc != 0 or o.out != 'PASS\n':
            errs.append('child ends within the timeout (%s <= %s): expected PASS, got rc=%s %s / %s' % (d, T, o.rc, o.out.strip(), ' / '.join(cli.stderr_lines(o.err)[:5])))
        for pn in ('first-probe', 'ba-probe', 'as-probe', 'cleanup-probe'):
            if pn not in names:
                errs.append('probe %s did not run' % pn)
    # every other process: timeout in force at its point (reference: history events in [setup] come first; "after" comes last)
    events, _ = HISTORIES[hist]
    for c in seam.calls:
        if c in slow:
            continue
        if any(w_ in ('same', 'post') for w_, _ in events):
            continue
        if c['timeout'] != in_force:
            errs.append('process %s started with timeout=%s, in force: %s' % (c['name'], c['timeout'], in_force))
            break
    if not expect_hang:
        if w.sandboxes():
            errs.append('sandbox not removed: %s' % w.sandboxes())
        diff = w.process_state_diff()
        if diff:
            errs.append('process state of the caller changed: %s' % diff[:2])
    prev = None
    for s in states:
        st = (place, s)
        res.states.add(st)
        if prev:
            res.trans.add((prev, st))
        prev = st
    if not errs:
        res.validated += 1
    if expect_timeout or expect_hang:
        res.nontrivial += 1
    res.outcomes[(o.ident if not o.hang else 'WAITS', expect_timeout, expect_hang)] += 1
    if not res.samples and expect_timeout:
        res.samples.append({'case': case, 'file': text, 'duration': d, 'timeout_in_force': T, 'rc': o.rc,
                            'starts': [(c['name'], c['timeout']) for c in seam.calls], 'virtual_time': seam.clock})
    if errs:
        res.violation(case, errs, {'file': text, 'calls': [(c['name'], c['timeout']) for c in seam.calls], 'stderr': o.err[:600]})
    return res


def run_real(case) -> Result:
    """Real processes: exactly must return within a bounded time after the timeout, report HARD_ERROR, the child must be gone, the sandbox removed."""
    _, place, variant = case
    res = Result()
    res.n = 1
    res.nontrivial += 1
    w = world.get()
    w.reset()
    seam = procseam.SEAM
    seam.reset()
    seam.real = True
    pidfile = str(w.ext / 'child.pid')
    prog = '%s --pidfile %s %s--sleep 30' % (PROBE, pidfile, '--ignore-term ' if variant == 'ignore-term' else '')
    if place.endswith('-shell'):
        prog = 'exec ' + prog  # the process exactly starts is the shell; `exec` makes the sleeper that very process
    text, place_phase, in_force, reported, files = build(place, 'set-1-before', 'PROG')
    text = text.replace('PROG', prog)
    # the other processes of the case are real too: make them trivially succeed
    for n in ('first-probe', 'ba-probe', 'as-probe', 'cleanup-probe', 'atc'):
        text = text.replace('% ' + n, '% ' + PROBE)
    t0 = time.time()
    o = cli.run_case(text)
    wall = time.time() - t0
    errs = []
    if o.exc:
        errs.append('exception: %s' % o.exc)
    if o.rc != 128 or o.out != 'HARD_ERROR\n':
        errs.append('real child sleeping 30 s with timeout = 1 at %s: expected HARD_ERROR, got rc=%s %s / %s' % (place, o.rc, o.out.strip(), ' / '.join(cli.stderr_lines(o.err)[:4])))
    if wall > 10:
        errs.append('exactly returned after %.1f s, expected shortly after the 1 s timeout (< 10 s)' % wall)
    pid = None
    try:
        with open(pidfile) as f:
            pid = int(f.read().strip())
    except Exception:  # noqa
        errs.append('the child never started (no pid file)')
    if pid:
        gone = False
        for _ in range(30):
            try:
                os.kill(pid, 0)
            except OSError:
                gone = True
                break
            # zombie of our own process?  reap if it is our child
            try:
                os.waitpid(pid, os.WNOHANG)
            except OSError:
                pass
            time.sleep(0.1)
        if not gone:
            errs.append('the child process is still alive 3 s after exactly returned')
            try:
                os.kill(pid, 9)
            except OSError:
                pass
    if w.sandboxes():
        errs.append('sandbox not removed: %s' % w.sandboxes())
    res.outcomes[('real', o.ident, wall < 10)] += 1
    res.states.add((place, 'real-' + variant))
    res.validated += 1 if not errs else 0
    res.stats['real-process cases'] += 1
    if errs:
        res.violation(case, errs, {'file': text, 'wall': wall, 'stderr': o.err[:500]})
    return res
