"""C04 — sandbox lifecycle and isolation of the Exactly process (DESIGN §3 C04).

Seam S-CLI + S-PROC with the stub instruction (every ending reachable from a test-case file).
Observer children look at the file system *at the moment they are started* (seam.on_call).
Lifecycle machine: none -> created -> setup -> act -> before-assert -> assert -> cleanup -> ended(removed|kept).
"""
import os
import stat

from mc import world, procseam, cli, stubprog
from mc.result import Result

PROPERTY = 'C04'
LEVEL = 'model_checking'
CHUNK = 80
RULE = ('as an unprivileged user (forked child, uid 65534): 8 ways a case removes permissions from parts of its sandbox x {pass, fail}; ' +
        'cases = ending (pass, failing assertion, and every single fault (step x kind) of a stub instruction in each phase, incl. '
        'validation faults before the sandbox exists) x mode (normal, --keep, --act) x behaviour of the case (plain, cd to tmp / new dir / nested dir that is '
        'later deleted, env set+unset in both sets, files made read-only, children writing to tmp/, instructions that need internal temp '
        'files) x output of the action (empty, no final newline, 70 kB on both streams); '
        'states = lifecycle state x observed facts; non-trivial = a sandbox was created (lifecycle went beyond "none")')
ASSUMPTIONS = [
    'the check runs as uid 0, so read-only files cannot block removal here: the permission cases are executed but their "cannot remove" effect is vacuous',
    'observer children are virtual (in-process) and inspect the file system when started',
    'a real child that changes its own directory is covered by C11, not here',
]

KINDS_SVH = ('VE', 'HEr', 'HEx', 'EXC')
KINDS_SH = ('HEr', 'HEx', 'EXC')


def endings():
    out = [('pass',), ('assert-fail',)]
    for k in KINDS_SVH:
        out.append(('conf', 'main', k))
    for ph in ('setup', 'before-assert', 'assert', 'cleanup'):
        for k in ('UNDEF', 'EXC'):
            out.append((ph, 'sym', k))
        for k in KINDS_SVH:
            out.append((ph, 'pre', k))
        if ph != 'cleanup':
            for k in KINDS_SVH:
                out.append((ph, 'post', k))
        for k in KINDS_SH + (('FAIL',) if ph == 'assert' else ()):
            out.append((ph, 'main', k))
    out.append(('act', 'nostart', 'OSERR'))
    # the step act/validate-exe-input (the stdin of the action set up in [setup] fails its validation: with a message / by raising)
    out += [('setup', 'exeinput', 'MSG'), ('setup', 'exeinput', 'EXC')]
    # double endings: a forward failure followed by a failing [cleanup] instruction
    for base in [('pass',), ('assert-fail',), ('act', 'nostart', 'OSERR')] + [(ph, 'main', k) for ph in ('setup', 'before-assert', 'assert') for k in ('HEr', 'EXC')] + \
            [('setup', 'post', 'VE'), ('assert', 'post', 'HEr'), ('assert', 'main', 'FAIL')]:
        for ck in ('HEr', 'HEx', 'EXC'):
            out.append(base + ('+cleanup', ck))
    return out


BEHAVIOURS = ('plain', 'cd-tmp', 'cd-new', 'cd-deleted', 'env', 'readonly', 'tmp-write', 'tmpfiles', 'act-transformed')
OUTPUTS = ('empty', 'nonl', 'big')
BIG = ''.join('line %06d of the output of the action to check\n' % i for i in range(1500))


def prepare(tier):
    stubprog.main_program()
    procseam.install()


UNPRIV = ('ro-file', 'ro-dir-with-file', 'ro-nested', 'no-perm-dir', 'ro-dir-in-tmp', 'no-perm-dir-holding-ro-dir', 'sandbox-root-no-perm', 'sandbox-root-no-perm-own-tmpdir')


def cases(tier):
    if os.getuid() == 0:
        # the checks run as root, for whom no permission bits matter: these cases drop to an unprivileged user in a forked child
        for v in UNPRIV:
            for ending in ('pass', 'fail'):
                yield ('unpriv', v, ending)
    # the directory exactly was STARTED in disappears during the run (the case removes / renames it, or replaces it by a file): the caller's
    # directory cannot be restored then, but the sandbox must still be removed (or kept and reported with --keep)
    for how in ('rmdir', 'rename', 'file'):
        for ending in ('pass', 'fail', 'hard'):
            for mode in (False, True, 'act'):
                yield ('startgone', how, ending, mode)
    # the directory for sandboxes is reached through a symbolic link (TMPDIR -> link): the current directory IS the act directory exactly names
    for mode in (False, True, 'act'):
        for ending in ('pass', 'fail'):
            yield ('symlinked-tmp', mode, ending)
    # exactly embedded through its library entry points with an EXPLICIT set of environment variables (os.environ itself / a dict of the caller):
    # what the case does to "its" environment must not reach the mapping the embedder supplied
    for which in ('os.environ', 'own-dict'):
        for via in ('processor', 'full-execution'):
            for ending in ('pass', 'fail', 'hard'):
                yield ('embed-env', which, via, ending)
    for e in endings():
        for keep in (False, True, 'act'):
            for b in BEHAVIOURS:
                outs = OUTPUTS if (tier == 'thorough' or b == 'plain' or e[0] in ('pass', 'cleanup')) else ('nonl',)
                for o in outs:
                    yield (e, keep, b, o)


def split_ending(ending):
    if '+cleanup' in ending:
        i = ending.index('+cleanup')
        return tuple(ending[:i]), ending[i + 1]
    return tuple(ending), None


def build(ending, behaviour):
    ending, cleanup_kind = split_ending(ending)
    ph = {p: [] for p in ('conf', 'setup', 'before-assert', 'assert', 'cleanup')}
    act = ['% atc']
    ph['setup'].append('run % obs setup-first')
    if behaviour == 'cd-tmp':
        ph['setup'] += ['cd -rel-tmp .', "file in-tmp.txt = 'made by the case'"]
    elif behaviour == 'cd-new':
        ph['setup'] += ['dir sub/deeper', 'cd sub/deeper']
    elif behaviour == 'cd-deleted':
        ph['setup'] += ['dir scratch', 'cd scratch']
        ph['cleanup'] += ['run % rmcwd']
    elif behaviour == 'env':
        ph['setup'] += ['env VERIF_X = set-by-case', 'env unset HOME', 'env -of act VERIF_Y = act-only', 'env PATH = "${PATH}:/extra"']
        ph['before-assert'] += ['env VERIF_X = changed-later']
    elif behaviour == 'readonly':
        ph['setup'] += ["file ro.txt = 'read only'", 'dir rodir', "file rodir/inner.txt = 'x'", 'run % mkreadonly']
    elif behaviour == 'tmp-write':
        ph['setup'] += ['run % writetmp']
    elif behaviour == 'tmpfiles':
        ph['setup'] += ["file piped.txt = -stdout-from % gen -transformed-by run % ext-tr",
                        "stdin = -stdout-from % gen",
                        "file here.txt = <<EOF\nhere doc\nEOF"]
        ph['assert'] += ["stdout -transformed-by ( run % ext-tr ) equals -stdout-from % gen2",
                         "contents piped.txt : -transformed-by char-case -to-upper matches GEN"]
    elif behaviour == 'act-transformed':
        # the action to check is a program symbol with a transformation of its output; the action exits with a non-zero code (3)
        ph['setup'] += ['def program ATP = % atc\n   -transformed-by char-case -to-upper']
        act = ['@ ATP']
    ph['before-assert'].append('run % obs before-assert')
    ph['cleanup'].insert(0, 'run % obs cleanup')
    if ending[0] == 'assert-fail':
        ph['assert'].append('exit-code != 3')
    elif ending[0] == 'act':
        act = ['% nonexisting']
    elif ending[0] != 'pass':
        ph[ending[0]].append('stub %s %s end' % (ending[1], ending[2]))
    if cleanup_kind:
        ph['cleanup'].append('stub main %s cleanup-end' % cleanup_kind)
    lines = []
    for p in ('conf', 'setup'):
        lines.append('[%s]' % p)
        lines += ph[p]
    lines.append('[act]')
    lines += act
    for p in ('before-assert', 'assert', 'cleanup'):
        lines.append('[%s]' % p)
        lines += ph[p]
    return '\n'.join(lines) + '\n'


def expected(ending):
    """-> (acceptable identifiers, sandbox created?)"""
    base, ck = split_ending(ending)
    ident, created = expected1(base)
    ids = {ident}
    if ck and created:
        ids = {ident, {'HEr': 'HARD_ERROR', 'HEx': 'HARD_ERROR', 'EXC': 'INTERNAL_ERROR'}[ck]} - ({'PASS'} if True else set())
    return ids, created


def expected1(ending):
    if ending[0] == 'pass':
        return 'PASS', True
    if ending[0] == 'assert-fail':
        return 'FAIL', True
    if ending[0] == 'act':
        return 'HARD_ERROR', True
    ph, step, kind = ending
    ident = {'VE': 'VALIDATION_ERROR', 'HEr': 'HARD_ERROR', 'HEx': 'HARD_ERROR', 'EXC': 'INTERNAL_ERROR',
             'UNDEF': 'VALIDATION_ERROR', 'FAIL': 'FAIL', 'MSG': 'HARD_ERROR'}[kind]
    created = step in ('post', 'main', 'exeinput') and ph != 'conf'
    return ident, created


_SEEN_SANDBOXES = set()


def _ls(p):
    try:
        return sorted(os.listdir(p))
    except OSError as ex:
        return 'ERR:%s' % ex


def _unpriv(case) -> Result:
    """A test case that makes parts of its sandbox read-only, run by an ordinary (non-root) user: the sandbox is still removed."""
    import json
    _, variant, ending = case
    res = Result()
    res.n = 1
    res.nontrivial += 1
    w = world.get()
    w.reset()
    seam = procseam.SEAM
    seam.reset()
    seam.default = {'exit': 0}
    for dp, dns, fns in os.walk(str(w.root)):
        os.chmod(dp, 0o777)
    os.chmod(str(w.root), 0o777)
    os.chmod(str(w.root.parent), 0o755)  # the base of all scratch worlds (made by mkdtemp: 0700)
    where = '-rel-tmp ' if variant == 'ro-dir-in-tmp' else ''
    lines = ['[setup]', 'dir %sd/e' % where, "file %sd/f.txt = 'x'" % where, "file %sd/e/g.txt = 'x'" % where, 'run % mkro', '[act]', '% atc', '[assert]',
             'exit-code == %d' % (0 if ending == 'pass' else 1)]
    if variant.startswith('sandbox-root-no-perm'):
        # the whole sandbox is made inaccessible by the last instruction of [cleanup] (anything earlier could not finish its own bookkeeping)
        lines = ['[setup]', 'dir d/e', "file d/f.txt = 'x'", '[act]', '% atc', '[assert]', 'exit-code == %d' % (0 if ending == 'pass' else 1), '[cleanup]', 'run % mkro']
    text = '\n'.join(lines) + '\n'

    def hook(rec):
        if rec['name'] != 'mkro':
            return
        base = rec['cwd'] if variant != 'ro-dir-in-tmp' else os.path.join(os.path.dirname(rec['cwd']), 'tmp')
        d = os.path.join(base, 'd')
        if variant == 'ro-file':
            os.chmod(os.path.join(d, 'f.txt'), 0o444)
        elif variant in ('ro-dir-with-file', 'ro-dir-in-tmp'):
            os.chmod(d, 0o555)
        elif variant == 'ro-nested':
            os.chmod(os.path.join(d, 'e'), 0o555)
            os.chmod(d, 0o555)
        elif variant == 'no-perm-dir-holding-ro-dir':
            os.chmod(os.path.join(d, 'e'), 0o555)
            os.chmod(d, 0o000)
        elif variant.startswith('sandbox-root-no-perm'):
            os.chmod(os.path.dirname(rec['cwd']), 0o000)
        else:
            os.chmod(d, 0o000)

    seam.on_call = hook
    if variant == 'sandbox-root-no-perm-own-tmpdir':
        # the directory that holds the sandboxes belongs to the user: its own mode must not change
        os.chown(str(w.sb), 65534, 65534)
        os.chmod(str(w.sb), 0o755)
    sb_mode_before = stat.S_IMODE(os.stat(str(w.sb)).st_mode)
    rfd, wfd = os.pipe()
    pid = os.fork()
    if pid == 0:
        out = {}
        try:
            world._WORLD_PID[0] = os.getpid()  # the child works in the parent's world
            try:
                os.setgroups([])
                os.setgid(65534)
                os.setuid(65534)
            except OSError as ex:
                os.write(wfd, json.dumps({'skip': 'cannot drop privileges: %s' % ex}).encode('utf-8'))
                os._exit(0)
            o = cli.run_case(text)
            out = {'ident': o.ident, 'rc': o.rc, 'exc': o.exc, 'sandboxes': w.sandboxes(), 'err': o.err[:600], 'uid': os.getuid()}
        except BaseException as ex:  # noqa
            out = {'exc': 'harness: %r' % (ex,)}
        try:
            os.write(wfd, json.dumps(out).encode('utf-8'))
        finally:
            os._exit(0)
    os.close(wfd)
    data = b''
    while True:
        b = os.read(rfd, 65536)
        if not b:
            break
        data += b
    os.close(rfd)
    os.waitpid(pid, 0)
    got = json.loads(data.decode('utf-8')) if data else {'exc': 'harness: no result from the child'}
    errs = []
    want = 'PASS' if ending == 'pass' else 'FAIL'
    if got.get('skip'):
        res.stats['unpriv: ' + got['skip']] += 1
        return res
    if got.get('exc'):
        errs.append('exception: %s' % got['exc'])
    elif got.get('uid') == 0:
        errs.append('harness: the child still runs as root')
    else:
        if got['ident'] != want and not (variant.startswith('sandbox-root-no-perm') and got['ident'] in ('HARD_ERROR', 'INTERNAL_ERROR')):
            errs.append('outcome %s, expected %s / %s' % (got['ident'], want, ' / '.join(cli.stderr_lines(got['err'])[-3:])[:300]))
        if stat.S_IMODE(os.stat(str(w.sb)).st_mode) != sb_mode_before:
            errs.append('the mode of the directory that HOLDS the sandboxes changed: %o -> %o' % (sb_mode_before, stat.S_IMODE(os.stat(str(w.sb)).st_mode)))
        if got['sandboxes']:
            errs.append('run by an unprivileged user, the case made part of its sandbox read-only (%s): the sandbox was NOT removed when execution ended' % variant)
    # the parent (root) can always clean up
    for dp, dns, fns in os.walk(str(w.sb)):
        for n in dns:
            try:
                os.chmod(os.path.join(dp, n), 0o777)
            except OSError:
                pass
    res.outcomes[('unpriv', variant, got.get('ident'), bool(got.get('sandboxes')))] += 1
    res.states.add(('unpriv', variant, 'removed' if not got.get('sandboxes') else 'left'))
    if errs:
        res.violation(case, errs, {'file': text})
    else:
        res.validated += 1
    return res


def _startgone(case) -> Result:
    _, how, ending, mode = case
    res = Result()
    res.n = 1
    w = world.get()
    w.reset()
    seam = procseam.SEAM
    seam.reset()
    seam.script['atc'] = {'out': 'o\n', 'exit': 3}
    start = w.ext / 'start-dir'
    start.mkdir()
    seen = {}

    def hook(rec):
        if rec['name'] == 'zap':
            seen['sds'] = [os.path.join(str(w.sb), x) for x in w.sandboxes()]
            if how == 'rmdir':
                os.rmdir(str(start))
            elif how == 'rename':
                os.rename(str(start), str(start) + '-renamed')
            else:
                os.rmdir(str(start))
                with open(str(start), 'w') as f:
                    f.write('now a file')

    seam.on_call = hook
    lines = ['[setup]', 'run % zap', '[act]', '% atc', '[assert]', {'pass': 'exit-code == 3', 'fail': 'exit-code == 0', 'hard': 'stub main HEr end'}[ending],
             '[cleanup]', "file made-in-cleanup.txt = 'x'"]
    text = '\n'.join(lines) + '\n'
    p = w.write('c.case', text)
    os.chdir(str(start))
    args = ['--keep'] if mode is True else (['--act'] if mode == 'act' else [])
    o = cli.run(args + [str(p)], mp=stubprog.main_program())
    errs = []
    if o.exc:
        errs.append('exception / hang: %s' % o.exc)
    sbs = w.sandboxes()
    if 'sds' not in seen:
        errs.append('[setup] did not run')
    if mode is True:
        if len(sbs) != 1:
            errs.append('--keep: sandbox root holds %s' % sbs)
    elif sbs:
        errs.append('the directory exactly was started in disappeared during the run (%s): sandbox not removed: %s' % (how, sbs))
    w.restore_process_state()
    res.states.add(('startgone', how, mode))
    res.outcomes[('startgone', how, mode, o.out.strip().split('\n')[-1][:20] if mode is False else '')] += 1
    res.nontrivial += 1
    res.validated += 0 if errs else 1
    if errs:
        res.violation(case, errs, dict(o.brief(), file=text))
    return res


def _embed_env(case) -> Result:
    import io
    from exactly_lib.cli_default.program_modes.test_case import builtin_symbols, default_instructions_setup, test_case_handling_setup
    from exactly_lib.common import instruction_name_and_argument_splitter
    from exactly_lib.execution.configuration import PredefinedProperties
    from exactly_lib.execution.predefined_properties import os_environ_getter
    from exactly_lib.execution.full_execution import execution as full_execution
    from exactly_lib.impls.os_services import os_services_access
    from exactly_lib.processing import processors, test_case_processing
    from exactly_lib.processing.instruction_setup import TestCaseParsingSetup
    from exactly_lib.processing.parse.act_phase_source_parser import ActPhaseParser
    from exactly_lib.util.symbol_table import SymbolTable
    _, which, via, ending = case
    res = Result()
    res.n = 1
    w = world.get()
    w.reset()
    seam = procseam.SEAM
    seam.reset()
    seam.default = {'exit': 0}
    seam.script['nonzero'] = {'exit': 1}
    os.environ['VERIF_EMB_KEEP'] = 'original'
    environ = os.environ if which == 'os.environ' else dict(os.environ)
    before = dict(environ)
    lines = ['[setup]', 'env VERIF_EMB_SET = by-the-case', 'env unset VERIF_EMB_KEEP', 'env -of act VERIF_EMB_ACT = act-only', 'run % probe setup']
    if ending == 'hard':
        lines.append('run % nonzero')
    lines += ['[act]', '% atc', '[before-assert]', 'env -of !act VERIF_EMB_NONACT = x', '[assert]', 'exit-code == %d' % (1 if ending == 'fail' else 0),
              '[cleanup]', 'env VERIF_EMB_CLEANUP = set-in-cleanup', 'run % probe cleanup']
    text = '\n'.join(lines) + '\n'
    p = w.write('c.case', text)
    errs = []
    status = None
    try:
        symbols = SymbolTable({bs.name: bs.container for bs in builtin_symbols.ALL})
        tcd = processors.TestCaseDefinition(TestCaseParsingSetup(instruction_name_and_argument_splitter.splitter, default_instructions_setup.INSTRUCTIONS_SETUP, ActPhaseParser()),
                                            PredefinedProperties(os_environ_getter, environ, 60, symbols))
        conf = processors.Configuration(tcd, test_case_handling_setup.setup(), os_services_access.new_for_current_os(), io.DEFAULT_BUFFER_SIZE, False)
        ref = test_case_processing.test_case_reference_of_source_file(p)
        if via == 'processor':
            r = processors.new_processor_that_should_not_pollute_current_process(conf).apply(ref)
            status = r.execution_result.status.name if r.status is test_case_processing.Status.EXECUTED else str(r.status)
        else:
            doc = processors.new_accessor_from_conf(conf).apply(ref)
            r = full_execution.execute(conf.execution_configuration(),
                                       processors.default_conf_phase_configuration__of_file(p, conf.default_handling_setup.act_phase_setup.actor_nav), False, doc)
            status = r.status.name
    except Exception as ex:
        errs.append('exception: %s: %s' % (type(ex).__name__, ex))
    want = {'pass': 'PASS', 'fail': 'FAIL', 'hard': 'HARD_ERROR'}[ending]
    if status != want and not errs:
        errs.append('status %s, expected %s' % (status, want))
    probes = [c for c in seam.calls if c['name'] == 'probe']
    if probes and (probes[0]['env'] or {}).get('VERIF_EMB_SET') != 'by-the-case':
        errs.append('the probe in [setup] does not see the variable set by the case: the case has no effect (vacuous)')
    after = dict(environ)
    if after != before:
        d = ['%s: %r -> %r' % (k, before.get(k), after.get(k)) for k in sorted(set(before) | set(after)) if before.get(k) != after.get(k)]
        errs.append('the environment supplied by the embedder (%s) was changed by the test case: %s' % (which, '; '.join(d)))
    os.environ.pop('VERIF_EMB_KEEP', None)
    for k in ('VERIF_EMB_SET', 'VERIF_EMB_ACT', 'VERIF_EMB_NONACT', 'VERIF_EMB_CLEANUP'):
        os.environ.pop(k, None)
    if w.sandboxes():
        errs.append('sandbox not removed: %s' % w.sandboxes())
    res.states.add(('embed-env', which, via))
    res.outcomes[('embed-env', which, via, status)] += 1
    res.nontrivial += 1
    res.validated += 0 if errs else 1
    if errs:
        res.violation(case, errs, {'file': text})
    return res


def _symlinked_tmp(case) -> Result:
    import tempfile
    _, mode, ending = case
    res = Result()
    res.n = 1
    w = world.get()
    w.reset()
    seam = procseam.SEAM
    seam.reset()
    seam.script['atc'] = {'out': 'o\n', 'exit': 3}
    link = str(w.ext / 'tmp-link')
    os.symlink(str(w.sb), link)
    tempfile.tempdir = link
    seen = []

    def hook(rec):
        if rec['name'] == 'obsact':
            seen.append((rec['args'][1], rec['args'][2], rec['cwd']))

    seam.on_call = hook
    lines = ['[setup]', 'run % obsact setup @[EXACTLY_ACT]@', 'cd -rel-tmp .', 'run % obsact tmp @[EXACTLY_TMP]@', '[act]', '% atc', '[assert]',
             'exit-code == %d' % (3 if ending == 'pass' else 0), '[cleanup]', 'cd -rel-act .', 'run % obsact cleanup @[EXACTLY_ACT]@']
    text = '\n'.join(lines) + '\n'
    args = ['--keep'] if mode is True else (['--act'] if mode == 'act' else [])
    try:
        o = cli.run_case(text, args=args, mp=stubprog.main_program())
    finally:
        tempfile.tempdir = str(w.sb)
    errs = []
    if o.exc:
        errs.append('exception / hang: %s' % o.exc)
    if len(seen) != 3:
        errs.append('observers ran %d times, expected 3' % len(seen))
    for where, named, cwd in seen:
        if os.path.normpath(named) != os.path.normpath(cwd):
            errs.append('at %s the current directory is %s but exactly names the directory %s (sandbox root reached through a symbolic link)' % (where, cwd, named))
    sbs = w.sandboxes()
    if mode is True:
        if len(sbs) != 1:
            errs.append('--keep: sandbox root holds %s' % sbs)
        elif os.path.realpath(o.out.strip()) != os.path.realpath(os.path.join(str(w.sb), sbs[0])) or not os.path.isdir(os.path.join(o.out.strip(), 'act')):
            errs.append('--keep: stdout %r is not the kept sandbox %s' % (o.out[:200], sbs[0]))
    elif sbs:
        errs.append('sandbox not removed: %s' % sbs)
    diff = w.process_state_diff()
    if diff:
        errs.append('process state of the caller changed: %s' % diff[:3])
    res.states.add(('symlinked-tmp', mode))
    res.outcomes[('symlinked-tmp', mode, o.rc)] += 1
    res.nontrivial += 1
    res.validated += 0 if errs else 1
    if errs:
        res.violation(case, errs, dict(o.brief(), file=text))
    return res


def run(case) -> Result:
    if case[0] == 'unpriv':
        return _unpriv(case)
    if case[0] == 'symlinked-tmp':
        return _symlinked_tmp(case)
    if case[0] == 'embed-env':
        return _embed_env(case)
    if case[0] == 'startgone':
        return _startgone(case)
    ending, mode, behaviour, output = case
    ending = tuple(ending)
    base_ending, cleanup_kind = split_ending(ending)
    keep = mode is True
    act_mode = mode == 'act'
    res = Result()
    res.n = 1
    w = world.get()
    w.reset()
    seam = procseam.SEAM
    seam.reset()
    aout = {'empty': '', 'nonl': 'out line 1\nlast line without newline', 'big': BIG}[output]
    aerr = {'empty': '', 'nonl': 'err\n', 'big': BIG[:70000]}[output]
    seam.script['atc'] = {'out': aout, 'err': aerr, 'exit': 3}
    if behaviour == 'act-transformed':
        aout = aout.upper()  # what result/stdout (and --act) must hold
    seam.script['nonexisting'] = {'oserror': True}
    seam.script['gen'] = {'out': 'gen output\n'}
    seam.script['gen2'] = {'out': aout}
    seam.script['ext-tr'] = {'stdin_to_out': True}
    obs = []
    errs = []

    def sds_of(rec):
        # the sandbox root is the only directory under w.sb
        sbs = w.sandboxes()
        return os.path.join(str(w.sb), sbs[0]) if len(sbs) == 1 else None

    def observe(rec):
        name = rec['name']
        sds = sds_of(rec)
        if name == 'obs':
            where = rec['args'][1]
            o = {'where': where, 'cwd': rec['cwd'], 'sds': sds}
            if sds:
                o['root'] = _ls(sds)
                o['result'] = _ls(os.path.join(sds, 'result'))
                o['tmp'] = _ls(os.path.join(sds, 'tmp'))
                o['act'] = _ls(os.path.join(sds, 'act'))
                o['internal'] = _ls(os.path.join(sds, 'internal'))
                if where != 'setup-first':
                    for f in ('stdout', 'stderr', 'exit-code'):
                        try:
                            with open(os.path.join(sds, 'result', f)) as fh:
                                o['result/' + f] = fh.read()
                        except OSError as ex:
                            o['result/' + f] = 'ERR:%s' % type(ex).__name__
            obs.append(o)
        elif name == 'rmcwd':
            try:
                os.rmdir(rec['cwd'])
            except OSError as ex:
                obs.append({'where': 'rmcwd', 'error': str(ex)})
        elif name == 'mkreadonly' and sds:
            a = os.path.join(sds, 'act')
            for p in ('ro.txt', 'rodir/inner.txt', 'rodir'):
                os.chmod(os.path.join(a, p), stat.S_IRUSR | (stat.S_IXUSR if p == 'rodir' else 0))
        elif name == 'writetmp' and sds:
            with open(os.path.join(sds, 'tmp', 'written-by-child.txt'), 'w') as f:
                f.write('child')

    seam.on_call = observe
    text = build(ending, behaviour)
    args = ['--keep'] if keep else (['--act'] if act_mode else [])
    o = cli.run_case(text, args=args, mp=stubprog.main_program(), real_files=act_mode)
    ident_exp, created = expected(ending)
    if o.exc:
        errs.append('exception / hang: %s' % o.exc)
    ident = (o.err.split('\n')[0] if keep else o.out.strip())
    if act_mode:
        ident = 'act-mode'  # outcome reporting of --act is C02's business; here: the lifecycle
    elif ident not in ident_exp:
        errs.append('outcome %r, expected one of %s' % (ident, sorted(ident_exp)))

    # ---- observations during the run ------------------------------------------------
    first = [x for x in obs if x.get('where') == 'setup-first']
    tmp_allowed = {'cd-tmp': ['in-tmp.txt'], 'tmp-write': ['written-by-child.txt']}.get(behaviour, [])
    states = ['none']
    if created:
        if len(first) != 1:
            errs.append('first setup instruction observed %d times, expected once' % len(first))
        for x in first:
            states.append('created')
            if x['sds'] is None:
                errs.append('no unique sandbox under the sandbox root at [setup]: %s' % w.sandboxes())
                continue
            if x['cwd'] != os.path.join(x['sds'], 'act'):
                errs.append('current directory at the start of [setup] is %s, expected <sds>/act' % x['cwd'])
            if x['root'] != ['act', 'internal', 'result', 'tmp']:
                errs.append('sandbox layout at [setup]: %s' % x['root'])
            if x['result'] != []:
                errs.append('result/ not empty at [setup]: %s' % x['result'])
            if x['tmp'] != []:
                errs.append('tmp/ not empty at [setup]: %s' % x['tmp'])
            if x['act'] != []:
                errs.append('act/ not empty at [setup]: %s' % x['act'])
            if x['sds'] in _SEEN_SANDBOXES:
                errs.append('sandbox path %s was used by an earlier execution' % x['sds'])
            _SEEN_SANDBOXES.add(x['sds'])
        for x in obs:
            if x.get('where') in ('before-assert', 'cleanup') and x.get('sds'):
                states.append(x['where'])
                if x['root'] != ['act', 'internal', 'result', 'tmp']:
                    errs.append('sandbox layout at [%s]: %s' % (x['where'], x['root']))
                if x['tmp'] != tmp_allowed:
                    errs.append('tmp/ at [%s] holds %s, the case put %s there' % (x['where'], x['tmp'], tmp_allowed))
                act_ran = any(c['name'] == 'atc' for c in seam.calls[:seam.calls.index(next(c for c in seam.calls if c['name'] == 'obs' and c['args'][1] == x['where']))])
                if act_mode:
                    pass  # --act: the action's output goes to the caller's stdout/stderr, result/ is not the documented place
                elif act_ran:
                    if x['result'] != ['exit-code', 'stderr', 'stdout']:
                        errs.append('result/ after [act] holds %s' % x['result'])
                    else:
                        if x['result/stdout'] != aout:
                            errs.append('result/stdout differs from the action\'s output (%d vs %d chars)' % (len(x['result/stdout']), len(aout)))
                        if x['result/stderr'] != aerr:
                            errs.append('result/stderr differs from the action\'s output')
                        if x['result/exit-code'].strip() != '3':
                            errs.append('result/exit-code is %r, expected 3' % x['result/exit-code'])
                elif base_ending[0] == 'act':
                    # the action could not be started: the phase was attempted; the statement says nothing about result/ then
                    if not set(x['result']) <= {'exit-code', 'stderr', 'stdout'}:
                        errs.append('result/ holds unexpected files %s' % x['result'])
                elif x['result'] != []:
                    errs.append('result/ holds %s although the action has not run' % x['result'])
        if not [x for x in obs if x.get('where') == 'cleanup']:
            errs.append('[cleanup] was not observed although the sandbox existed')
    else:
        if obs:
            errs.append('instructions ran although validation failed: %s' % [x.get('where') for x in obs])

    # ---- after the run -----------------------------------------------------------------------
    sbs = w.sandboxes()
    if keep and created:
        states.append('kept')
        if len(sbs) != 1:
            errs.append('--keep: sandbox root holds %s' % sbs)
        else:
            root = os.path.join(str(w.sb), sbs[0])
            if o.out not in (root + '\n', os.path.realpath(root) + '\n'):
                errs.append('--keep: stdout %r is not exactly the sandbox path %s' % (o.out[:200], root))
            if _ls(root) != ['act', 'internal', 'result', 'tmp']:
                errs.append('--keep: layout %s' % _ls(root))
            if _ls(os.path.join(root, 'tmp')) != tmp_allowed:
                errs.append('--keep: tmp/ holds %s, the case put %s there' % (_ls(os.path.join(root, 'tmp')), tmp_allowed))
            if any(c['name'] == 'atc' for c in seam.calls):
                try:
                    with open(os.path.join(root, 'result', 'stdout')) as f:
                        if f.read() != aout:
                            errs.append('--keep: result/stdout not intact')
                    with open(os.path.join(root, 'result', 'exit-code')) as f:
                        if f.read().strip() != '3':
                            errs.append('--keep: result/exit-code not intact')
                except OSError as ex:
                    errs.append('--keep: result files: %s' % ex)
            if behaviour == 'readonly' and not os.path.exists(os.path.join(root, 'act', 'rodir', 'inner.txt')):
                errs.append('--keep: files created by the case are gone')
            if behaviour == 'cd-new' and not os.path.isdir(os.path.join(root, 'act', 'sub', 'deeper')):
                errs.append('--keep: directories created by the case are gone')
    else:
        states.append('removed' if created else 'never-created')
        if sbs:
            errs.append('sandbox not removed (%s): %s' % ('created' if created else 'should never have been created', sbs))
        if keep and o.out != '':
            errs.append('--keep without sandbox: stdout %r' % o.out[:100])
    diff = w.process_state_diff()
    if diff:
        errs.append('process state of the caller changed: %s' % diff[:3])

    prev = None
    for s in states:
        st = (s, ending[0] if s in ('kept', 'removed', 'never-created') else '', mode)
        res.states.add(st)
        if prev is not None:
            res.trans.add((prev, st))
        prev = st
    res.validated += 1 if not errs else 0
    res.outcomes[(ident, created, mode)] += 1
    if created:
        res.nontrivial += 1
    if not res.samples and created and behaviour != 'plain':
        res.samples.append({'case': case, 'file': text, 'observations': [{k: v for k, v in x.items() if not k.startswith('result/')} for x in obs][:3],
                            'rc': o.rc, 'lifecycle': states})
    if errs:
        res.violation(case, errs, dict(o.brief(), file=text, obs=[{k: (v if not isinstance(v, str) or len(v) < 200 else v[:200]) for k, v in x.items()} for x in obs]))
    return res
