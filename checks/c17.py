"""C17 — cases are independent; suite contents apply alike standalone and in a suite run (DESIGN §3 C17).

Part A (histories): every sequence of <= 3 (thorough 4) case kinds in ONE suite run (= one process); every case starts with a probe
that records the state it finds (cwd, env, timeout, act/ and tmp/ listings) and then pollutes in its own way.  Oracle: the probe
finds the pristine state and the case's identifier equals the one it gets alone (--suite S CASE, and CASE beside exactly.suite).
Part B (suite contents): suite supplies contents for every subset of the 6 phases x case for every subset; marker order per phase;
sub-suite cases see nothing of the parent; identical in the three run modes.
"""
import itertools
import os
import re
import stat

from mc import world, procseam, cli, stubprog
from mc.result import Result

PROPERTY = 'C17'
LEVEL = 'model_checking'
CHUNK = 25
RULE = ('A: all sequences of <= 3 (thorough 4) cases over 11 kinds (observer only; cd; cd into a directory that is then deleted; env set/unset in both sets; timeout; def; files in '
        'act/ and tmp/; read-only files; ending in HARD_ERROR, INTERNAL_ERROR, FAIL after polluting) run as one suite = one process; state after each case = (cwd of the process, '
        'environ difference, sandbox root listing). B: 64 x 64 subsets of phases supplied by suite / case x 3 run modes, plus sub-suite isolation; '
        'non-trivial = a polluting case precedes another case (A) or both suite and case supply contents for some phase (B)')
ASSUMPTIONS = [
    'probes are virtual children observing the file system and their start record; Y=y0 is set in the caller\'s environment',
    'where both suite and case supply [act] contents the source-interpreter actor is configured (with the command-line actor two lines are not a valid action)',
]

KINDS = ('observer', 'cd', 'cd-deleted', 'env', 'timeout', 'def', 'files', 'readonly', 'err-he', 'err-exc', 'fail')


def case_text(kind, name):
    # `env` first: populates this case's environment sets from the default, so that a polluted default would be seen
    setup = ['env MARK = 1', 'run % probe ' + name, "def string S = 'mine'"]
    act = ['% atc ' + name]
    ba, asrt, cl = [], [], []
    if kind == 'cd':
        setup += ['dir x/y', 'cd x/y']
        ba += ['cd -rel-tmp .']
    elif kind == 'cd-deleted':
        setup += ['dir scratch', 'cd scratch']
        cl += ['run % rmcwd']
    elif kind == 'env':
        setup += ['env V1 = polluted', 'env unset Y', 'env -of act V2 = a', 'env -of !act V2 = n']
        asrt += ['env V1 = again']
    elif kind == 'timeout':
        setup += ['timeout = 1']
        cl += ['timeout = none']
    elif kind == 'def':
        setup += ["def string T = 'polluted'", 'def path P = -rel-tmp p']
    elif kind == 'files':
        setup += ["file in-act.txt = 'x'", "file -rel-tmp in-tmp.txt = 'y'", 'dir -rel-tmp d/e']
    elif kind == 'readonly':
        setup += ["file ro.txt = 'x'", 'dir rod', "file rod/f.txt = 'x'", 'run % mkreadonly']
    elif kind == 'err-he':
        setup += ['env V1 = polluted', 'cd -rel-tmp .', 'timeout = 2', 'stub main HEr']
    elif kind == 'err-exc':
        setup += ['env V1 = polluted', 'dir q', 'cd q', 'timeout = 3']
        asrt += ['stub main EXC']
    elif kind == 'fail':
        setup += ['env -of act V1 = polluted', 'cd -rel-tmp .']
        asrt += ['exit-code == 1']
    lines = ['[setup]'] + setup + ['[act]'] + act
    for p, ls in (('before-assert', ba), ('assert', asrt), ('cleanup', cl)):
        if ls:
            lines += ['[%s]' % p] + ls
    return '\n'.join(lines) + '\n'


EXPECTED_IDENT = {'err-he': 'HARD_ERROR', 'err-exc': 'INTERNAL_ERROR', 'fail': 'FAIL'}
PRISTINE = {'cwd': 'act', 'env': {'Y': 'y0'}, 'timeout': 60, 'act': [], 'tmp': []}

_T = {}


def prepare(tier):
    stubprog.main_program()
    procseam.install()


def cases(tier):
    n = 3 if tier == 'quick' else 4
    for k in range(1, n + 1):
        for seq in itertools.product(range(len(KINDS)), repeat=k):
            yield ('hist', seq)
    for kind in range(len(KINDS)):
        for mode in ('dash-suite', 'beside'):
            yield ('alone', kind, mode)
    phases = range(6)
    for smask in range(64):
        for cmask in range(64):
            yield ('contents', smask, cmask)
    yield ('sub-suite-isolation',)
    for n in (2, 3):
        for order in itertools.permutations(range(3), n):
            yield ('shared', order)
    for variant in ('suite-conf', 'suite-conf-and-sub-suite', 'failing'):
        yield ('preprocessor', variant)
    # [conf] given by the suite comes BEFORE the case's own [conf]: what the case sets itself wins
    for ss in (None, 'PASS', 'FAIL', 'SKIP'):
        for cs in (None, 'PASS', 'FAIL', 'SKIP'):
            for failing in (False, True):
                yield ('conf-order', ss, cs, failing)


def _mk_seam(w, seam, probes, probes_act=None):
    probes_act = probes_act if probes_act is not None else []
    def on_call(rec):
        nm = rec['name']
        if nm == 'atc':
            # the action to check of a case that sets no stdin: what it is given on stdin must not come from a source shared by the cases
            probes_act.append((rec['args'][1:], rec['stdin']))
        if nm == 'probe':
            sds = os.path.dirname(rec['cwd']) if os.path.basename(rec['cwd']) == 'act' else None
            sbs = w.sandboxes()
            root = os.path.join(str(w.sb), sbs[0]) if len(sbs) == 1 else None
            o = {'name': rec['args'][1], 'cwd': os.path.relpath(rec['cwd'], root) if root else rec['cwd'],
                 'env': rec['env'] if rec['env'] is not None else {k_: os.environ[k_] for k_ in ('V1', 'V2', 'Y') if k_ in os.environ},
                 'timeout': rec['timeout'], 'nsandboxes': len(sbs), 'stdin': rec['stdin']}
            if root:
                for d in ('act', 'tmp'):
                    try:
                        o[d] = sorted(os.listdir(os.path.join(root, d)))
                    except OSError as ex:
                        o[d] = 'ERR %s' % ex
            try:
                o['process_cwd_ok'] = os.getcwd() == rec['cwd']
            except OSError:
                o['process_cwd_ok'] = False
            probes.append(o)
        elif nm == 'rmcwd':
            try:
                os.rmdir(rec['cwd'])
            except OSError:
                pass
        elif nm == 'mkreadonly':
            a = rec['cwd']
            for p in ('ro.txt', 'rod/f.txt', 'rod'):
                try:
                    os.chmod(os.path.join(a, p), stat.S_IRUSR | (stat.S_IXUSR if p == 'rod' else 0))
                except OSError:
                    pass

    seam.on_call = on_call
    seam.env_keys = ('V1', 'V2', 'Y')
    seam.default = {'exit': 0}


def _env0(w):
    if os.environ.get('Y') != 'y0' or 'V1' in os.environ:
        os.environ['Y'] = 'y0'
        os.environ.pop('V1', None)
        os.environ.pop('V2', None)
        w.environ0 = dict(os.environ)


def check_probe(p):
    errs = []
    for k, want in PRISTINE.items():
        if p.get(k) != want:
            errs.append('case %s starts with %s = %s, pristine is %s' % (p['name'], k, p.get(k), want))
    if p.get('nsandboxes') != 1:
        errs.append('case %s: %s sandboxes exist while it runs (earlier ones not removed?)' % (p['name'], p.get('nsandboxes')))
    return errs


def run(case) -> Result:
    res = Result()
    res.n = 1
    w = world.get()
    _env0(w)
    w.reset()
    seam = procseam.SEAM
    seam.reset()
    mp = stubprog.main_program()
    k = case[0]
    if k == 'hist':
        return _hist(res, case, w, seam, mp)
    if k == 'alone':
        return _alone(res, case, w, seam, mp)
    if k == 'contents':
        return _contents(res, case, w, seam, mp)
    if k == 'shared':
        return _shared(res, case, w, seam, mp)
    if k == 'preprocessor':
        return _preprocessor(res, case, w, seam, mp)
    if k == 'conf-order':
        return _conf_order(res, case, w, seam, mp)
    return _isolation(res, case, w, seam, mp)


def _hist(res, case, w, seam, mp):
    seq = case[1]
    probes = []
    acts = []
    _mk_seam(w, seam, probes, acts)
    names = []
    for i, ki in enumerate(seq):
        nm = 'c%d-%s.case' % (i, KINDS[ki])
        names.append(nm)
        w.write(nm, case_text(KINDS[ki], nm))
    w.write('main.suite', '[cases]\n' + '\n'.join(names) + '\n')
    o = cli.run(['suite', str(w.home / 'main.suite')], mp=mp)
    errs = []
    if o.exc:
        errs.append('exception: %s' % o.exc)
    lines = [re.sub(r'\(\d+\.\d+s\) ', '', l) for l in o.out.split('\n') if l.startswith('case')]
    want = ['case  %s: %s' % (nm, EXPECTED_IDENT.get(KINDS[ki], 'PASS')) for nm, ki in zip(names, seq)]
    if lines != want:
        errs.append('identifiers in the suite run %s, each case alone gives %s' % (lines, want))
    if [p['name'] for p in probes] != names:
        errs.append('probes %s, cases %s' % ([p['name'] for p in probes], names))
    for p in probes:
        errs += check_probe(p)
    for args_, stdin_ in acts:
        if (stdin_ or '') != '':
            errs.append('the action to check of %s (no stdin set by the case) was given %r on stdin: the standard input of the exactly process, shared by all '
                        'cases of the run' % (args_, stdin_[:60]))
    prev = ('init',)
    for p, ki in zip(probes, seq):
        st = (p['cwd'], tuple(sorted((p['env'] or {}).items())), p['timeout'], tuple(p.get('act') or ()), tuple(p.get('tmp') or ()), p.get('process_cwd_ok'))
        res.states.add(st)
        res.trans.add((prev, KINDS[ki], st))
        prev = st
    if w.sandboxes():
        errs.append('sandboxes left after the suite run: %s' % w.sandboxes())
    diff = w.process_state_diff()
    if diff:
        errs.append('process state of the caller changed by the suite run: %s' % diff[:3])
    if not errs:
        res.validated += 1
    if len(seq) > 1 and any(KINDS[k_] != 'observer' for k_ in seq[:-1]):
        res.nontrivial += 1
    res.outcomes[('hist', o.rc)] += 1
    if not res.samples and len(seq) == 3:
        res.samples.append({'cases': [KINDS[k_] for k_ in seq], 'progress': lines, 'probes': probes})
    if errs:
        res.violation(case, errs, {'stdout': o.out[:800], 'stderr': o.err[:600], 'probes': probes})
    return res


def _alone(res, case, w, seam, mp):
    _, ki, mode = case
    probes = []
    _mk_seam(w, seam, probes)
    nm = 'c0-%s.case' % KINDS[ki]
    w.write(nm, case_text(KINDS[ki], nm))
    if mode == 'dash-suite':
        w.write('main.suite', '[cases]\n%s\n' % nm)
        o = cli.run(['--suite', str(w.home / 'main.suite'), str(w.home / nm)], mp=mp)
    else:
        w.write('exactly.suite', '[cases]\n%s\n' % nm)
        o = cli.run([str(w.home / nm)], mp=mp)
    errs = []
    want = EXPECTED_IDENT.get(KINDS[ki], 'PASS')
    if o.ident != want:
        errs.append('case kind %s alone (%s): %s, expected %s / %s' % (KINDS[ki], mode, o.ident, want, ' / '.join(cli.stderr_lines(o.err)[:5])))
    for p in probes:
        errs += check_probe(p)
    if len(probes) != 1:
        errs.append('%d probes' % len(probes))
    diff = w.process_state_diff()
    if diff:
        errs.append('process state changed: %s' % diff[:3])
    res.outcomes[('alone', o.ident)] += 1
    res.nontrivial += 1
    res.validated += 0 if errs else 1
    if errs:
        res.violation(case, errs, {'stderr': o.err[:600]})
    return res


PH = ('conf', 'setup', 'act', 'before-assert', 'assert', 'cleanup')


def _contents_files(smask, cmask, who_suite='suite', who_case='case'):
    s_has = [bool(smask >> i & 1) for i in range(6)]
    c_has = [bool(cmask >> i & 1) for i in range(6)]
    both_act = s_has[2] and c_has[2]
    suite = ['[cases]', 'the.case']
    case_ = []
    if s_has[0] or both_act:
        suite.append('[conf]')
        if s_has[0]:
            suite.append('status = FAIL')
        if both_act:
            suite.append('actor = source % interp')
    if c_has[0]:
        case_ += ['[conf]', 'act-home = .']
    for i, p in enumerate(PH):
        if p in ('conf',):
            continue
        if p == 'act':
            if both_act:
                suite += ['[act]', 'suite source line']
                case_ += ['[act]', 'case source line']
            elif s_has[2]:
                suite += ['[act]', '%% mark %s-act' % who_suite]
            elif c_has[2]:
                case_ += ['[act]', '%% mark %s-act' % who_case]
            continue
        if s_has[i]:
            suite += ['[%s]' % p, 'run %% mark %s-%s' % (who_suite, p)]
        if c_has[i]:
            case_ += ['[%s]' % p, 'run %% mark %s-%s' % (who_case, p)]
    want = []
    for i, p in enumerate(PH):
        if p == 'conf':
            continue
        if p == 'act':
            if both_act:
                want.append('interp')
            elif s_has[2]:
                want.append('%s-act' % who_suite)
            elif c_has[2]:
                want.append('%s-act' % who_case)
            continue
        first, second = (who_suite, who_case) if p != 'cleanup' else (who_case, who_suite)
        has = {who_suite: s_has[i], who_case: c_has[i]}
        for who in (first, second):
            if has[who]:
                want.append('%s-%s' % (who, p))
    ident = 'XPASS' if s_has[0] else 'PASS'
    return '\n'.join(suite) + '\n', '\n'.join(case_) + '\n', want, ident, both_act


def _contents(res, case, w, seam, mp):
    _, smask, cmask = case
    suite, case_, want, ident, both_act = _contents_files(smask, cmask)
    errs = []
    for mode in ('suite-run', 'dash-suite', 'beside'):
        w.reset()
        seam.reset()
        seam.default = {'exit': 0}
        src = {}

        def on_call(rec):
            if rec['name'] == 'interp':
                try:
                    with open(rec['args'][-1]) as f:
                        src['text'] = f.read()
                except OSError as ex:
                    src['text'] = 'ERR %s' % ex

        seam.on_call = on_call
        w.write('the.case', case_)
        if mode == 'beside':
            w.write('exactly.suite', suite)
            o = cli.run([str(w.home / 'the.case')], mp=mp)
            got_ident = o.ident
        else:
            w.write('main.suite', suite)
            if mode == 'suite-run':
                o = cli.run(['suite', str(w.home / 'main.suite')], mp=mp)
                m = [re.sub(r'\(\d+\.\d+s\) ', '', l) for l in o.out.split('\n') if l.startswith('case')]
                got_ident = m[0].split(': ')[-1] if m else 'no case line: %s' % o.out[:100]
            else:
                # an explicit --suite overrides the default suite file beside the case
                w.write('exactly.suite', '[cases]\nthe.case\n[setup]\nrun % mark decoy-setup\n[cleanup]\nrun % mark decoy-cleanup\n[conf]\nstatus = SKIP\n')
                o = cli.run(['--suite', str(w.home / 'main.suite'), str(w.home / 'the.case')], mp=mp)
                got_ident = o.ident
        marks = [c['args'][1] if c['name'] == 'mark' else c['name'] for c in seam.calls]
        if got_ident != ident:
            errs.append('%s: outcome %s, expected %s / %s' % (mode, got_ident, ident, ' / '.join(cli.stderr_lines(o.err)[:4])))
        if marks != want:
            errs.append('%s: instructions ran in order %s, documented order %s' % (mode, marks, want))
        if both_act and src.get('text', '').split() != 'suite source line case source line'.split():
            errs.append('%s: act source given to the interpreter is %r, expected suite\'s lines then the case\'s' % (mode, src.get('text')))
        res.n += 1
    res.outcomes[('contents', ident)] += 1
    if smask & cmask:
        res.nontrivial += 1
    res.validated += 0 if errs else 1
    res.states.add(('contents', bin(smask & cmask).count('1')))
    if not res.samples and smask & cmask == 0b100010:
        res.samples.append({'suite': suite, 'case': case_, 'expected_order': want})
    if errs:
        res.violation(case, errs, {'suite': suite, 'case': case_})
    return res


def _isolation(res, case, w, seam, mp):
    """Contents of a suite are not applied to the cases of its sub-suites."""
    seam.default = {'exit': 0}
    parent = '[suites]\nsub/sub.suite\n[cases]\np.case\n[setup]\nrun % mark parent-setup\n[cleanup]\nrun % mark parent-cleanup\n[conf]\nstatus = FAIL\n'
    sub = '[cases]\nc.case\n[setup]\nrun % mark sub-setup\n'
    w.write('main.suite', parent)
    w.write('sub/sub.suite', sub)
    w.write('p.case', '[act]\n% mark p-act\n')
    w.write('sub/c.case', '[act]\n% mark c-act\n')
    o = cli.run(['suite', str(w.home / 'main.suite')], mp=mp)
    marks = [c['args'][1] for c in seam.calls]
    want = ['sub-setup', 'c-act', 'parent-setup', 'p-act', 'parent-cleanup']
    errs = []
    if marks != want:
        errs.append('markers %s, expected %s (sub-suite cases get nothing from the parent suite)' % (marks, want))
    lines = [re.sub(r'\(\d+\.\d+s\) ', '', l) for l in o.out.split('\n') if l.startswith('case')]
    if lines != ['case  sub/c.case: PASS', 'case  p.case: XPASS']:
        errs.append('case lines %s' % lines)
    res.nontrivial += 1
    res.outcomes[('isolation', o.rc)] += 1
    if errs:
        res.violation(case, errs, {'stdout': o.out})
    return res


SHARED_SUITE = """[cases]
%s
[setup]
env FROM_SUITE = "@[EXACTLY_ACT]@"
def text-transformer FIRST = filter -line-nums 1
def text-transformer MULTI = filter -line-nums 1 -1
[before-assert]
run %% chk @[EXP]@ @[EXACTLY_ACT]@ @[EXACTLY_TMP]@/x -existing-file -rel-act @[EXP]@.txt @[L]@
[assert]
stdout any line : contents matches ^@[EXP]@$
stdout any line : contents equals @[EXP]@
stdout -transformed-by replace @[EXP]@ X equals <<END
X
END
stdout equals <<END
@[EXP]@
END
exists @[EXP]@.txt : type file && name @[EXP]@.txt
exists @[P]@
exit-code == @[CODE]@
exit-code @[IM]@
contents @[EXP]@.txt : @[TM]@
contents @[EXP]@.txt : -transformed-by @[TT]@ equals @[EXP]@-@[EXP]@
dir-contents . : matches -full { @[EXP]@.txt : type file
 lines.txt : type file }
dir-contents . : num-files == 2 && any file : name ~ ^@[EXP]@
stdout -transformed-by FIRST equals <<END
@[EXP]@
END
contents lines.txt : -transformed-by MULTI equals <<END
first
last@[CODE]@
END
contents lines.txt : -transformed-by filter -line-nums @[LN]@
  equals <<END
@[LNTEXT]@
END
contents lines.txt : -transformed-by filter -line-nums @[LN]@:@[LN]@ -1
  equals <<END
@[LNTEXT2]@
END
contents lines.txt : num-lines == @[NL]@ && ! num-lines > @[NL]@
dir-contents . : -recursive -min-depth 0 -max-depth @[NL]@ num-files == 2
contents lines.txt : -transformed-by replace -at line-num == @[LN]@ '$' '!' any line : contents equals @[LNTEXT]@!
[cleanup]
run %% chk-cleanup @[EXP]@ "@[EXACTLY_ACT]@"
"""


def _ln_defs(i):
    """Per-case line number LN (a different one in every case), the text of that line, and the number of lines."""
    lines = ['first'] + ['mid'] * (2 - i) + ['last%d' % (i + 1)]
    ln = [2, 3, 1][i]
    t = lines[ln - 1]
    t2 = t if ln == len(lines) else t + '\n' + lines[-1]
    return "def string LN = %d\ndef string LNTEXT = %s\ndef string LNTEXT2 = '%s'\ndef string NL = %d\n" % (ln, t, t2, len(lines))


def _shared_case(i):
    exp = 'value%d' % i
    code = i + 1
    return ("[setup]\ndef string EXP = '%s'\ndef string CODE = %d\ndef list L = %s l\ndef path P = -rel-act %s.txt\n"
            "def integer-matcher IM = == %d\ndef text-matcher TM = equals '%s'\ndef text-transformer TT = replace %s %s-%s\n"
            "file %s.txt = '%s'\nfile lines.txt = <<END\nfirst\n%slast%d\nEND\n" % (exp, code, exp, exp, code, exp, exp, exp, exp, exp, exp, 'mid\n' * (2 - i), code)
            + _ln_defs(i) + "[act]\n%% atc%d\n" % i)


def _shared(res, case, w, seam, mp):
    """Suite-supplied phase contents (parsed once, shared by all cases of the suite) that reference symbols every case defines with
    its own value and sandbox builtins: each case must behave as it does alone."""
    order = case[1]
    names = ['k%d.case' % i for i in order]
    for i in order:
        w.write('k%d.case' % i, _shared_case(i))
        seam.script['atc%d' % i] = {'out': 'value%d\n' % i, 'exit': i + 1}
    seam.default = {'exit': 0}
    w.write('main.suite', SHARED_SUITE % '\n'.join(names))
    errs = []
    runs = [('suite-run', ['suite', str(w.home / 'main.suite')])] + [('alone-%d' % i, ['--suite', str(w.home / 'main.suite'), str(w.home / ('k%d.case' % i))]) for i in order]
    for mode, argv in runs:
        seam.calls.clear()
        o = cli.run(argv, mp=mp)
        res.n += 1
        if mode == 'suite-run':
            lines = [re.sub(r'\(\d+\.\d+s\) ', '', l) for l in o.out.split('\n') if l.startswith('case')]
            want = ['case  %s: PASS' % n for n in names]
            if lines != want:
                errs.append('suite run: %s, every case passes alone: %s / %s' % (lines, want, ' / '.join(l for l in cli.stderr_lines(o.err)[:12] if not l.startswith('Ran '))))
            seq = order
        else:
            if o.ident != 'PASS':
                errs.append('%s: %s / %s' % (mode, o.ident, ' / '.join(cli.stderr_lines(o.err)[:8])))
            seq = [int(mode.split('-')[1])]
        chks = [c for c in seam.calls if c['name'] == 'chk']
        if len(chks) != len(seq):
            errs.append('%s: %d chk processes for %d cases' % (mode, len(chks), len(seq)))
        for c, i in zip(chks, seq):
            act = c['cwd']
            exp = 'value%d' % i
            wantargs = ['chk', exp, act, os.path.join(os.path.dirname(act), 'tmp', 'x'), os.path.join(act, exp + '.txt'), exp, 'l']
            if c['args'] != wantargs:
                errs.append('%s: case k%d: suite-supplied `run` got %s, the case\'s own values give %s' % (mode, i, c['args'], wantargs))
    res.nontrivial += 1
    res.outcomes[('shared', len(order))] += 1
    res.validated += 0 if errs else 1
    if errs:
        res.violation(case, errs)
    return res


def _conf_order(res, case, w, seam, mp):
    """Suite [conf] `status` and case [conf] `status`: the effective status is the case's own if it sets one, else the suite's (suite contents is
    included before the case's); the same in a suite run, with --suite and with the suite as exactly.suite beside the case."""
    _, ss, cs, failing = case
    eff = cs or ss or 'PASS'
    if eff == 'SKIP':
        want = 'SKIPPED'
    elif eff == 'FAIL':
        want = 'XFAIL' if failing else 'XPASS'
    else:
        want = 'FAIL' if failing else 'PASS'
    seam.default = {'exit': 0}
    suite = ('[conf]\nstatus = %s\n' % ss if ss else '') + '[cases]\nk.case\n'
    kcase = ('[conf]\nstatus = %s\n' % cs if cs else '') + '[act]\n%% atc\n[assert]\nexit-code == %d\n' % (1 if failing else 0)
    errs = []
    for mode in ('suite-run', 'dash-suite', 'beside'):
        w.reset()
        seam.calls.clear()
        sname = 'exactly.suite' if mode == 'beside' else 'main.suite'
        w.write(sname, suite)
        w.write('k.case', kcase)
        if mode == 'suite-run':
            o = cli.run(['suite', str(w.home / sname)], mp=mp)
            lines = [re.sub(r'\(\d+\.\d+s\) ', '', l) for l in o.out.split('\n') if l.startswith('case')]
            got = lines[0].split(': ')[-1] if lines else 'no case line: %r' % o.out[:200]
        elif mode == 'dash-suite':
            o = cli.run(['--suite', str(w.home / sname), str(w.home / 'k.case')], mp=mp)
            got = o.ident
        else:
            o = cli.run([str(w.home / 'k.case')], mp=mp)
            got = o.ident
        res.n += 1
        ran = any(c['name'] == 'atc' for c in seam.calls)
        if got != want:
            errs.append('%s: suite status %s, case status %s, %s assertion: outcome %s, expected %s (the case\'s own setting wins)' % (
                mode, ss, cs, 'failing' if failing else 'passing', got, want))
        if ran != (want != 'SKIPPED'):
            errs.append('%s: the action to check was %s' % (mode, 'executed although the case is SKIPPED' if ran else 'not executed'))
    res.nontrivial += 1
    res.outcomes[('conf-order', want)] += 1
    res.validated += 0 if errs else 1
    if errs:
        res.violation(case, errs)
    return res


def _preprocessor(res, case, w, seam, mp):
    """A preprocessor configured in the suite's [conf] is applied to every case listed directly in the suite - in a suite run and when the
    case is run alone with that suite - and not to cases of sub-suites."""
    variant = case[1]
    res.nontrivial += 1

    def pp(rec):
        name = rec['args'][-1]
        if variant == 'failing' and name == 'c2.case':
            return {'exit': 3, 'err': 'pp failed\n'}
        return {'out': '[act]\n%% mark preprocessed-%s\n' % name}

    seam.script['pp'] = pp
    seam.default = {'exit': 0}
    suite = '[conf]\npreprocessor = pp -x\n[cases]\nc1.case\nc2.case\n'
    if variant == 'suite-conf-and-sub-suite':
        suite = '[suites]\nsub/sub.suite\n' + suite
        w.write('sub/sub.suite', '[cases]\ns1.case\n')
        w.write('sub/s1.case', '[act]\n% mark raw-s1.case\n')
    w.write('main.suite', suite)
    w.write('c1.case', 'this is not exactly syntax [\n')
    w.write('c2.case', 'neither is this [\n')
    errs = []
    want_ident = {'c1.case': 'PASS', 'c2.case': 'PRE_PROCESS_ERROR' if variant == 'failing' else 'PASS'}
    runs = [('suite-run', ['suite', str(w.home / 'main.suite')], None)] + \
           [('alone-' + c, ['--suite', str(w.home / 'main.suite'), str(w.home / c)], c) for c in ('c1.case', 'c2.case')]
    for mode, argv, single in runs:
        seam.calls.clear()
        o = cli.run(argv, mp=mp)
        res.n += 1
        pps = [c['args'] for c in seam.calls if c['name'] == 'pp']
        leaked = [c['args'][-1] for c in seam.calls if c['name'] == 'pp' and (c['stdin'] or '') != '']
        if leaked:
            errs.append('%s: the preprocessor of %s was given the standard input of the exactly process itself (shared by all cases of the run): what it reads '
                        'there is gone for the following cases' % (mode, leaked))
        marks = [c['args'][1] for c in seam.calls if c['name'] == 'mark']
        cases_ = ['c1.case', 'c2.case'] if single is None else [single]
        want_pp = [['pp', '-x', c] for c in cases_]
        want_marks = (['raw-s1.case'] if (variant == 'suite-conf-and-sub-suite' and single is None) else []) + \
                     ['preprocessed-' + c for c in cases_ if want_ident[c] == 'PASS']
        if pps != want_pp:
            errs.append('%s: preprocessor invocations %s, expected %s' % (mode, pps, want_pp))
        if marks != want_marks:
            errs.append('%s: actions %s, expected %s' % (mode, marks, want_marks))
        if single is None:
            lines = {l.split(': ')[0].split()[-1]: l.split(': ')[-1].split(' ')[-1] for l in o.out.split('\n') if l.startswith('case')}
            for c in cases_:
                if lines.get(c) != want_ident[c]:
                    errs.append('%s: %s reported %s, alone it gives %s' % (mode, c, lines.get(c), want_ident[c]))
        elif o.ident != want_ident[single]:
            errs.append('%s: %s, expected %s' % (mode, o.ident, want_ident[single]))
    res.outcomes[('preprocessor', variant)] += 1
    res.validated += 0 if errs else 1
    if errs:
        res.violation(case, errs)
    return res
