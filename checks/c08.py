"""C08 — symbols: defined before use, defined once, type-checked (transitively), substituted faithfully (DESIGN §3 C08).

Part 1: def/use programs of <= 3 statements over names {A, B} placed in any phases, phase blocks in several file orders; a reference
interpreter walks the statements in execution order.  Part 2: (defined type, reached directly / through 1..2 string symbols / next to a
sibling reference) x context with a documented type demand.  Part 3: values seen by probes.
Any violation the reference finds => VALIDATION_ERROR with an empty effect log; otherwise the probes see the reference values.
"""
import itertools
import os

from mc import world, procseam, cli, kf
from mc.result import Result

PROPERTY = 'C08'
LEVEL = 'exploration'
CHUNK = 60
RULE = ('Part 1: all sequences of <= 2 placed statements over {def A, def B referencing A, def B, use A, use B, redefinition of A with another type, definition of a builtin name, self-referential definition} x phases '
        '{setup, act (uses), before-assert, assert, cleanup}, and all sequences of 3 over {def A, def B(A), use A, use B} x 4 phases, each in 2..3 file orders of the phase blocks; '
        'Part 2: 26 ways a symbol reaches a context (7 types directly; string built from string / list / path through 1 and 2 definitions; list/path next to a string sibling; list holding a path) x 22 contexts '
        'plus 9 instructions that reference ONE symbol twice in contexts demanding different types '
        'with a documented demand x phase of use; Part 3: value rendering (concatenation, list splicing, list in string, absolute paths, -rel-cd at reference time); '
        'non-trivial = the program contains a reference; distinct by construction')
ASSUMPTIONS = [
    'accepted-type table per context transcribed from the STRING, LIST, PATH, TEXT-SOURCE, PROGRAM-ARGUMENT, INTEGER and def pages; contexts that demand a string "purely" '
    '(integer, file-name/suffix of a path, program name, env variable name) reject strings built from lists or paths, per the statement\'s transitivity clause',
]

PHASES = ('setup', 'act', 'before-assert', 'assert', 'cleanup')
BUILTINS = ('EXACTLY_ACT', 'EXACTLY_HOME', 'EXACTLY_TMP')

# ---- part 1 ---------------------------------------------------------------------------------------
STMTS = {
    'DA': ('def', 'A', [], "def string A = 'a'"),
    'DB': ('def', 'B', ['A'], 'def string B = "b@[A]@"'),
    'DB0': ('def', 'B', [], "def string B = 'b'"),
    'UA': ('use', None, ['A'], 'run % probe A=@[A]@'),
    'UB': ('use', None, ['B'], 'run % probe B=@[B]@'),
    'DA2': ('def', 'A', [], 'def list A = x y'),
    'DBI': ('def', 'EXACTLY_ACT', [], "def string EXACTLY_ACT = 'x'"),
    'DAS': ('def', 'A', ['A'], 'def string A = "a@[A]@"'),  # a definition referring to itself: reference before definition
}
VALUES = {'A': 'a', 'B': 'ba', 'B0': 'b'}


def placed(full):
    out = []
    names = list(STMTS) if full else ['DA', 'DB', 'UA', 'UB']
    for n in names:
        for p in PHASES:
            if p == 'act' and (STMTS[n][0] != 'use' or not full):
                continue
            out.append((n, p))
    return out


def programs(tier):
    P2 = placed(True)
    P3 = placed(False)
    for k in (1, 2):
        for prog in itertools.product(P2, repeat=k):
            if sum(1 for _, p in prog if p == 'act') > 1:
                continue
            yield prog
    for prog in itertools.product(P3, repeat=3):
        yield prog
    if tier == 'thorough':
        for prog in itertools.product(P2, repeat=3):
            if sum(1 for _, p in prog if p == 'act') > 1:
                continue
            if all(x in P3 for x in prog):
                continue
            yield prog


def orders(prog):
    used = []
    for _, p in prog:
        if p not in used:
            used.append(p)
    canon = [p for p in PHASES if p in used]
    outs = [tuple(canon)]
    if len(canon) > 1:
        outs.append(tuple(reversed(canon)))
        if tuple(used) not in outs:
            outs.append(tuple(used))
    return outs


def reference(prog):
    """-> ('VE', reason) | ('ok', [probe argv expected in execution order])"""
    table = {}
    probes = []
    seq = sorted(range(len(prog)), key=lambda i: (PHASES.index(prog[i][1]), i))
    for i in seq:
        kind, name, refs, _ = STMTS[prog[i][0]]
        for r in refs:
            if r not in table:
                return ('VE', 'reference to %s before / without definition' % r)
        if kind == 'def':
            if name in table or name in BUILTINS:
                return ('VE', '%s defined twice' % name)
            if prog[i][0] == 'DB':
                table[name] = 'b' + table['A'] if isinstance(table['A'], str) else 'bx y'
            elif prog[i][0] == 'DB0':
                table[name] = 'b'
            elif prog[i][0] == 'DA2':
                table[name] = ['x', 'y']
            else:
                table[name] = 'a'
        else:
            r = refs[0]
            v = table[r]
            if isinstance(v, list):
                # `A=@[A]@` with a list: concatenation of the string part with the list rendered by single spaces
                probes.append(['probe', '%s=%s' % (r, ' '.join(v))])
            else:
                probes.append(['probe', '%s=%s' % (r, v)])
    return ('ok', probes)


def render_prog(prog, order):
    blocks = {p: [] for p in PHASES}
    for n, p in prog:
        line = STMTS[n][3]
        if p == 'act':
            line = line.replace('run % probe', '% probe')
        blocks[p].append(line)
    lines = []
    for p in order:
        lines.append('[%s]' % p)
        lines += blocks[p]
    if 'act' not in order:
        lines += ['[act]', '% atc']
    return '\n'.join(lines) + '\n'


# ---- part 2 ---------------------------------------------------------------------------------------
ROWS = {
    # name: (definition lines, type as it reaches the context, pure provenance?)
    'string': (["def string M = '7'"], 'string', True),
    'list': (['def list M = 7'], 'list', True),
    'path': (['def path M = -rel-act 7'], 'path', True),
    'text-matcher': (['def text-matcher M = is-empty'], 'text-matcher', True),
    'text-transformer': (['def text-transformer M = identity'], 'text-transformer', True),
    'integer-matcher': (['def integer-matcher M = == 7'], 'integer-matcher', True),
    'program': (['def program M = % p'], 'program', True),
    'str-of-str': (['def string M0 = 7', 'def string M = "@[M0]@"'], 'string', True),
    'str-of-list': (['def list M0 = 7', 'def string M = "@[M0]@"'], 'string', False),
    'str-of-path': (['def path M0 = -rel-act 7', 'def string M = "@[M0]@"'], 'string', False),
    'str2-of-str': (['def string M0 = 7', 'def string M1 = @[M0]@', 'def string M = "@[M1]@"'], 'string', True),
    'str2-of-list': (['def list M0 = 7', 'def string M1 = "@[M0]@"', 'def string M = @[M1]@'], 'string', False),
    'str2-of-path': (['def path M0 = -rel-act 7', 'def string M1 = @[M0]@', 'def string M = "x@[M1]@"'], 'string', False),
    'sibling-list-2nd': (['def string A0 = 7', 'def list M0 = 7', 'def string M = @[A0]@@[M0]@'], 'string', False),
    'sibling-path-2nd': (['def string A0 = 7', 'def path M0 = -rel-act 7', 'def string M = "@[A0]@@[M0]@"'], 'string', False),
    'sibling-list-deep': (['def string A0 = 7', 'def list L0 = 7', 'def string B0 = @[L0]@', 'def string M = "@[A0]@@[B0]@"'], 'string', False),
    'list-of-path': (['def path M0 = -rel-act 7', 'def list M = a @[M0]@'], 'list', True),
    # the wrong-typed symbol sits two or three definitions down, below a reference that is NOT the last one of its definition
    'deep-list-under-first': (['def string A0 = 7', 'def list L0 = 7', 'def string B0 = @[L0]@', 'def string M = "@[B0]@@[A0]@"'], 'string', False),
    'deep-path-under-first': (['def string A0 = 7', 'def path P0 = -rel-act 7', 'def string B0 = @[P0]@', 'def string M = "@[B0]@-@[A0]@"'], 'string', False),
    'deep-list-under-middle': (['def string A0 = 7', 'def list L0 = 7', 'def string B0 = @[L0]@', 'def string M = "@[A0]@@[B0]@@[A0]@"'], 'string', False),
    'deep3-list-under-first': (['def string A0 = 7', 'def list L0 = 7', 'def string B0 = "@[L0]@"', 'def string C0 = "@[B0]@@[A0]@"', 'def string M = "@[C0]@@[A0]@"'], 'string', False),
    'deep3-path-under-first-of-last': (['def string A0 = 7', 'def path P0 = -rel-act 7', 'def string B0 = "@[P0]@"', 'def string C0 = "@[B0]@@[A0]@"', 'def string M = "@[A0]@@[C0]@"'], 'string', False),
    'file-matcher': (['def file-matcher M = type file'], 'file-matcher', True),
    'files-matcher': (['def files-matcher M = is-empty'], 'files-matcher', True),
    'line-matcher': (['def line-matcher M = line-num == 1'], 'line-matcher', True),
    'file-matcher-of-matchers': (['def text-matcher M0 = is-empty', 'def file-matcher M1 = contents M0', 'def file-matcher M = M1 || type dir'], 'file-matcher', True),
}
SLP = {'string', 'list', 'path'}
CONTEXTS = {
    # name: (phase, lines, accepted types, pure?)
    'prog-arg': ('setup', ['run % probe @[M]@'], SLP, False),
    'prog-arg-cleanup': ('cleanup', ['run % probe @[M]@'], SLP, False),
    'act-arg': ('act', ['% probe @[M]@'], SLP, False),
    'list-elem': ('setup', ['def list Q = a @[M]@'], SLP, False),
    'string-frag': ('before-assert', ['def string Q = "a@[M]@"'], SLP, False),
    'regex': ('setup', ['def text-matcher Q = matches @[M]@'], SLP, False),
    'integer': ('assert', ['exit-code == @[M]@'], {'string'}, True),
    'timeout': ('setup', ['timeout = @[M]@'], {'string'}, True),
    'line-nums': ('assert', ['def text-transformer Q = filter -line-nums @[M]@'], {'string'}, True),
    'path-suffix': ('setup', ['def path Q = -rel-act @[M]@'], {'string'}, True),
    'path-suffix-2': ('cleanup', ['def path Q = -rel-tmp x/@[M]@'], {'string'}, True),
    # path components written WITHOUT a relativity option, the reference not being the leading `@[SYM]@/` part
    'path-comp-norel': ('setup', ['def path Q = x/@[M]@'], {'string'}, True),
    'path-comp-norel-glued': ('before-assert', ['def path Q = @[M]@x'], {'string'}, True),
    'path-comp-norel-two-refs': ('setup', ['def string A9 = 7', 'def path Q = @[A9]@@[M]@'], {'string'}, True),
    'file-name-comp': ('setup', ['file d/@[M]@'], {'string'}, True),
    'dir-name-comp-cleanup': ('cleanup', ['dir x@[M]@'], {'string'}, True),
    # references in the SUFFIX of a path that starts with a path symbol (both ways of writing it)
    'suffix-of-rel-symbol': ('setup', ['def path B9 = -rel-act b', 'def path Q = -rel B9 @[M]@'], {'string'}, True),
    'suffix-of-rel-symbol-glued': ('assert', ['def path B7 = -rel-act b', 'exists -rel B7 x@[M]@y'], {'string'}, True),
    'suffix-after-path-symbol': ('before-assert', ['def path B8 = -rel-tmp b', 'def path Q = @[B8]@/@[M]@.txt'], {'string'}, True),
    'suffix-after-path-symbol-2nd-component': ('cleanup', ['def path B6 = -rel-tmp b', 'dir @[B6]@/d/@[M]@'], {'string'}, True),
    'rel': ('setup', ['def path Q = -rel M x'], {'path'}, False),
    'rel-assert': ('assert', ['exists -rel M x'], {'path'}, False),
    'lead': ('setup', ['def path Q = @[M]@/x'], {'path', 'string'}, True),
    'file-name': ('setup', ['file @[M]@'], {'path', 'string'}, True),
    'prog-name': ('setup', ['run % @[M]@'], {'string'}, True),
    'env-name': ('setup', ['env @[M]@ = v'], {'string'}, True),
    'env-val': ('setup', ['env V = @[M]@'], {'string', 'text-source'}, False),
    'text-source': ('setup', ['file f.txt = @[M]@'], {'string', 'text-source'}, False),
    'matcher': ('assert', ['stdout ! M'], {'text-matcher'}, False),
    'matcher-ref': ('assert', ['stdout ! @[M]@'], {'text-matcher'}, False),
    'transformer': ('assert', ['stdout -transformed-by M ! constant false'], {'text-transformer'}, False),
    'int-matcher': ('assert', ['exit-code ! M'], {'integer-matcher'}, False),
    'run-sym': ('before-assert', ['run @ M'], {'program'}, False),
    # contexts whose instruction resolves symbols in a validation step AFTER [setup] (with "same-phase" definitions the symbol is defined in [assert] itself)
    'exists-file-matcher': ('assert', ['exists @[EXACTLY_ACT]@ : M'], {'file-matcher'}, False),
    'exists-file-matcher-2nd': ('assert', ['exit-code >= 0', 'exists @[EXACTLY_TMP]@ : ! M'], {'file-matcher'}, False),
    'dir-contents-files-matcher': ('assert', ['dir-contents @[EXACTLY_TMP]@ : M'], {'files-matcher'}, False),
    'line-matcher-in-assert': ('assert', ['stdout every line : M'], {'line-matcher'}, False),
    'exists-in-before-assert-def': ('assert', ['exists @[EXACTLY_ACT]@ : ( M || type dir )'], {'file-matcher'}, False),
}


# ONE instruction that references M twice, in two contexts demanding different types (every reference is checked against ITS context)
PS = {'path', 'string'}
TWO_SLOT = [
    # phase, line, (accepted, pure) of the first reference, (accepted, pure) of the second
    ('setup', 'run % probe @[M]@ -existing-file @[M]@', (SLP, False), (PS, True)),
    ('act', '% probe @[M]@ -existing-file @[M]@', (SLP, False), (PS, True)),
    ('assert', 'contents @[M]@ : @[M]@', (PS, True), ({'text-matcher'}, False)),
    ('setup', 'file @[M]@ = @[M]@', (PS, True), ({'string', 'text-source'}, False)),
    ('assert', 'stdout -transformed-by @[M]@ @[M]@', ({'text-transformer'}, False), ({'text-matcher'}, False)),
    ('assert', 'exists @[M]@ : @[M]@', (PS, True), ({'file-matcher'}, False)),
    ('before-assert', 'run % probe "@[M]@" -existing-file @[M]@', (SLP, False), (PS, True)),
    ('cleanup', 'env V = @[M]@ -transformed-by @[M]@', ({'string', 'text-source'}, False), ({'text-transformer'}, False)),
    ('setup', 'run % probe @[M]@ @[M]@', (SLP, False), (SLP, False)),
]


def _slot_accepts(row, slot):
    _, typ, pure = ROWS[row]
    accepts, needs_pure = slot
    return typ in accepts and (pure or not needs_pure)


def _twice(res, case, w, seam):
    _, row, ti = case
    defs, typ, pure = ROWS[row]
    phase, line, s1, s2 = TWO_SLOT[ti]
    blocks = {p: [] for p in PHASES}
    blocks['setup'] += defs
    if phase == 'act':
        blocks['act'] = [line]
    else:
        blocks[phase].append(line)
        blocks['act'] = ['% atc']
    text = '\n'.join(sum([['[%s]' % p] + blocks[p] for p in PHASES], [])) + '\n'
    o = cli.run_case(text)
    a1, a2 = _slot_accepts(row, s1), _slot_accepts(row, s2)
    errs = []
    if o.exc:
        errs.append('exception: %s' % o.exc)
    if a1 and a2:
        if o.ident in ('SYNTAX_ERROR', 'INTERNAL_ERROR'):
            errs.append('`%s` with M a %s (%s): both references are of an accepted type: got %s / %s' % (line, typ, row, o.ident, ' / '.join(cli.stderr_lines(o.err)[-3:])[:300]))
    else:
        if o.ident != 'VALIDATION_ERROR' or o.rc != 65:
            errs.append('`%s` with M a %s (%s): the %s reference demands %s%s: expected VALIDATION_ERROR, got %s / %s' % (
                line, typ, row, 'first' if not a1 else 'second', sorted((s1 if not a1 else s2)[0]), ' (purely)' if (s1 if not a1 else s2)[1] else '', o.ident,
                ' / '.join(cli.stderr_lines(o.err)[-2:])[:200]))
        errs += _no_effects(w, seam)
    res.outcomes[('twice', a1, a2, o.ident)] += 1
    res.nontrivial += 1
    if errs:
        res.violation(case, errs, {'file': text})
    return res


# references to non-ASCII names that must be REJECTED (a reference that is not recognised as one would silently be kept as text)
UNI_REJECT = [
    (['run % probe @[\u00e9_undefined]@'], 'an undefined symbol'),
    (['def string \u00e9 = v', 'run % probe "a @[\u00e9x]@ b"'], 'an undefined symbol (a longer name than the defined one)'),
    (['def list l\u00e9 = a b', 'timeout = @[l\u00e9]@'], 'a list where an integer (string) is demanded'),
    (['def path p\u00e9 = -rel-home 7', "file -rel p\u00e9 out.txt = 'x'"], 'a home-relative path symbol as the root of a file to create'),
    (['def list l\u00e9 = a b', 'def string s\u00e9 = "@[l\u00e9]@"', 'def path q = -rel-act @[s\u00e9]@'], 'a list inside a string used as a path component'),
    (['run % probe x', 'def string \u00e9 = v', '[cleanup]', 'def string \u00e9 = again'], 'a duplicate definition'),
]


def _uni_reject(res, case, w, seam):
    lines, what = UNI_REJECT[case[1]]
    body = []
    phase_lines = {'setup': [], 'cleanup': []}
    cur = 'setup'
    for l in lines:
        if l == '[cleanup]':
            cur = 'cleanup'
        else:
            phase_lines[cur].append(l)
    text = '[setup]\n' + '\n'.join(phase_lines['setup']) + '\n[act]\n% atc\n[cleanup]\n' + '\n'.join(phase_lines['cleanup']) + '\n'
    o = cli.run_case(text)
    errs = []
    if o.ident != 'VALIDATION_ERROR' or o.rc != 65:
        errs.append('%s with a non-ASCII name must be rejected before execution: got %s / %s' % (what, o.ident, ' / '.join(cli.stderr_lines(o.err)[-2:])[:200]))
    errs += _no_effects(w, seam)
    res.outcomes[('uni-reject', o.ident)] += 1
    res.nontrivial += 1
    if errs:
        res.violation(case, errs, {'file': text})
    return res


def _cleanup_ref_act_mode(res, case, w, seam):
    """--act runs [setup], the action and [cleanup] only: a symbol defined in a skipped phase ([before-assert], [assert]) and used in [cleanup]."""
    _, dphase = case
    blocks = {p: [] for p in PHASES}
    blocks['act'] = ['% atc']
    blocks[dphase].append("def string X = 'the value'")
    blocks['cleanup'] = ['run % probe "@[X]@"']
    text = '\n'.join(sum([['[%s]' % p] + blocks[p] for p in PHASES], [])) + '\n'
    o = cli.run_case(text, args=['--act'], real_files=True)
    pc = [c['args'][1:] for c in seam.calls if c['name'] == 'probe']
    errs = []
    if o.rc != 0:
        errs.append('--act: exit code %s, expected the action\'s (0) / %s' % (o.rc, ' / '.join(cli.stderr_lines(o.err)[-3:])[:260]))
    if pc != [['the value']]:
        errs.append("--act: [cleanup] refers to X defined in [%s]: the probe must get ['the value'], got %s" % (dphase, pc))
    res.outcomes[('cleanup-ref-act-mode', dphase, o.rc)] += 1
    res.nontrivial += 1
    if errs:
        hit = kf.classify_c08(text, 'act-mode', dphase, 'after' if dphase != 'setup' else 'before', o.rc, 'INTERNAL_ERROR\n' if 'INTERNAL_ERROR' in o.err.split('\n') else o.out, o.err, pc)
        if hit:
            res.kf[hit] += 1
        else:
            res.violation(case, errs, {'file': text})
    return res


def _cleanup_ref(res, case, w, seam):
    """An instruction of phase F fails; X is defined before / after it (same phase) or in a later phase; [cleanup] refers to X."""
    _, fphase, dphase, where = case
    fail = {'setup': 'run % failing', 'before-assert': 'run % failing', 'assert': 'exit-code == 99'}[fphase]
    want_ident = 'FAIL' if fphase == 'assert' else 'HARD_ERROR'
    blocks = {p: [] for p in PHASES}
    blocks['act'] = ['% atc']
    d = "def string X = 'the value'"
    if dphase == fphase:
        blocks[fphase] += [d, fail] if where == 'before' else [fail, d]
    else:
        blocks[fphase].append(fail)
        blocks[dphase].append(d)
    blocks['cleanup'] = ['run % probe "@[X]@"']
    seam.script['failing'] = {'exit': 3}
    text = '\n'.join(sum([['[%s]' % p] + blocks[p] for p in PHASES], [])) + '\n'
    o = cli.run_case(text)
    pc = [c['args'][1:] for c in seam.calls if c['name'] == 'probe']
    errs = []
    if o.ident != want_ident:
        errs.append('the failing instruction in [%s] gives %s; got %s / %s' % (fphase, want_ident, o.ident, ' / '.join(cli.stderr_lines(o.err)[-3:])[:260]))
    if pc != [['the value']]:
        errs.append("[cleanup] refers to X (defined in [%s] %s the failing instruction): the probe must get ['the value'], got %s" % (dphase, where, pc))
    res.outcomes[('cleanup-ref', where if dphase == fphase else 'later-phase', o.ident)] += 1
    res.nontrivial += 1
    if errs:
        hit = kf.classify_c08(text, fphase, dphase, where, o.rc, o.out, o.err, pc)
        if hit:
            res.kf[hit] += 1
        else:
            res.violation(case, errs, {'file': text})
    return res


def expected_accept(row, ctx):
    _, typ, pure = ROWS[row]
    _, _, accepts, needs_pure = CONTEXTS[ctx]
    if typ not in accepts:
        return False
    if needs_pure and not pure:
        return False
    return True


def prepare(tier):
    cli.main_program()
    procseam.install()


def cases(tier):
    for prog in programs(tier):
        for order in orders(prog):
            yield ('prog', prog, order)
    for row in ROWS:
        for ctx in CONTEXTS:
            for defphase in ('setup', 'same', 'before-assert'):
                if defphase == 'before-assert' and CONTEXTS[ctx][0] != 'assert':
                    continue
                yield ('type', row, ctx, defphase)
    for i in range(len(VALUE_CASES)):
        yield ('value', i)
    for row in ROWS:
        for ti in range(len(TWO_SLOT)):
            yield ('twice', row, ti)
    for i in range(len(UNI_REJECT)):
        yield ('uni-reject', i)
    # [cleanup] runs whatever happened: its references must evaluate to the defined values also when execution stopped early
    for fphase in ('setup', 'before-assert', 'assert'):
        for dphase in ('setup', 'before-assert', 'assert'):
            if PHASES.index(dphase) < PHASES.index(fphase):
                continue
            for where in ('before', 'after'):
                if where == 'before' and dphase != fphase:
                    continue
                yield ('cleanup-ref', fphase, dphase, where)
    for dphase in ('setup', 'before-assert', 'assert'):
        yield ('cleanup-ref-act-mode', dphase)


def run(case) -> Result:
    res = Result()
    res.n = 1
    w = world.get()
    w.reset()
    seam = procseam.SEAM
    seam.reset()
    seam.default = {'exit': 0}
    w.write('7', 'x')
    k = case[0]
    if k == 'prog':
        return _prog(res, case, w, seam)
    if k == 'type':
        return _type(res, case, w, seam)
    if k == 'twice':
        return _twice(res, case, w, seam)
    if k == 'uni-reject':
        return _uni_reject(res, case, w, seam)
    if k == 'cleanup-ref':
        return _cleanup_ref(res, case, w, seam)
    if k == 'cleanup-ref-act-mode':
        return _cleanup_ref_act_mode(res, case, w, seam)
    return _value(res, case, w, seam)


def _no_effects(w, seam):
    errs = []
    if seam.calls:
        errs.append('processes were started: %s' % [c['args'] for c in seam.calls][:3])
    if w.sandboxes():
        errs.append('a sandbox was created')
    return errs


def _prog(res, case, w, seam):
    _, prog, order = case
    prog = tuple(tuple(x) for x in prog)
    text = render_prog(prog, order)
    ref = reference(prog)
    o = cli.run_case(text)
    errs = []
    if o.exc:
        errs.append('exception: %s' % o.exc)
    if ref[0] == 'VE':
        if o.ident != 'VALIDATION_ERROR' or o.rc != 65:
            errs.append('%s: expected VALIDATION_ERROR, got %s' % (ref[1], o.ident))
        errs += _no_effects(w, seam)
    else:
        if o.ident != 'PASS':
            errs.append('every symbol is defined once and before use: expected PASS, got %s / %s' % (o.ident, ' / '.join(cli.stderr_lines(o.err)[-3:])[:300]))
        got = [c['args'] for c in seam.calls if c['name'] == 'probe']
        if got != ref[1]:
            errs.append('probes saw %s, the definitions give %s' % (got, ref[1]))
    res.outcomes[('prog', ref[0], o.ident)] += 1
    if any(STMTS[n][2] for n, _ in prog):
        res.nontrivial += 1
    if not res.samples and len(prog) == 3 and ref[0] == 'VE':
        res.samples.append({'file': text, 'reference': ref, 'outcome': o.ident})
    if errs:
        res.violation(case, errs, {'file': text})
    return res


def _type(res, case, w, seam):
    _, row, ctx, defphase = case
    defs, typ, pure = ROWS[row]
    cphase, clines, accepts, needs_pure = CONTEXTS[ctx]
    blocks = {p: [] for p in PHASES}
    dph = 'setup' if (defphase == 'setup' or cphase == 'act') else (cphase if defphase == 'same' else defphase)
    if PHASES.index(dph) > PHASES.index(cphase):
        dph = 'setup'
    blocks[dph] += defs
    if cphase == 'act':
        blocks['act'] = clines
    else:
        blocks[cphase] += clines
    if not blocks['act']:
        blocks['act'] = ['% atc']
    text = '\n'.join(sum([['[%s]' % p] + blocks[p] for p in PHASES], [])) + '\n'
    o = cli.run_case(text)
    acc = expected_accept(row, ctx)
    errs = []
    if o.exc:
        errs.append('exception: %s' % o.exc)
    if acc:
        if o.ident in ('VALIDATION_ERROR', 'SYNTAX_ERROR', 'INTERNAL_ERROR'):
            errs.append('a %s symbol (%s) is accepted where %s is demanded (%s): got %s / %s' % (
                typ, row, sorted(accepts), ctx, o.ident, ' / '.join(cli.stderr_lines(o.err)[-4:])[:300]))
    else:
        if o.ident != 'VALIDATION_ERROR' or o.rc != 65:
            errs.append('a %s symbol reached as `%s` must be rejected where %s%s is demanded (%s): got %s' % (
                typ, row, sorted(accepts), ' (purely)' if needs_pure else '', ctx, o.ident))
        errs += _no_effects(w, seam)
    res.outcomes[('type', acc, o.ident)] += 1
    res.nontrivial += 1
    if errs:
        res.violation(case, errs, {'file': text})
    return res


# ---- part 3: values -----------------------------------------------------------------------------------------
VALUE_CASES = [
    # (setup lines, probe line, expected argv (with <ACT>, <TMP>, <HOME> placeholders))
    (["def string S = 'v w'", 'def list L = a "b c" @[S]@', 'def list E ='], 'run % probe @[L]@ "@[L]@" x@[S]@y @[E]@ "@[E]@" end',
     ['a', 'b c', 'v w', 'a b c v w', 'xv wy', '', 'end']),
    (['def list L1 = a b', 'def list L2 = @[L1]@ c @[L1]@'], 'run % probe @[L2]@', ['a', 'b', 'c', 'a', 'b']),
    (['def path P = -rel-act sub/f', 'def path Q = -rel P g', 'def path R = @[Q]@/h', 'def string S = "in @[R]@"'], 'run % probe @[P]@ @[Q]@ @[R]@ @[S]@',
     ['<ACT>/sub/f', '<ACT>/sub/f/g', '<ACT>/sub/f/g/h', 'in <ACT>/sub/f/g/h']),
    (['def path T = -rel-tmp t', 'def path H = -rel-home 7', 'def list L = @[T]@ x'], 'run % probe @[L]@ @[H]@ "@[T]@ @[H]@"', ['<TMP>/t', 'x', '<HOME>/7', '<TMP>/t <HOME>/7']),
    (['def path C = -rel-cd here', 'dir d1', 'cd d1'], 'run % probe @[C]@', ['<ACT>/d1/here']),
    (['def path C = here', 'run % probe @[C]@', 'dir d2', 'cd d2'], 'run % probe @[C]@', ['<ACT>/d2/here']),
    (['def string A = a', 'def string B = @[A]@@[A]@', 'def string C = "@[B]@-@[A]@"'], 'run % probe @[C]@ @[EXACTLY_ACT]@ @[EXACTLY_TMP]@', ['aa-a', '<ACT>', '<TMP>']),
    (["def string N = 3", 'def string M = "@[N]@+4"'], 'timeout = @[M]@\nrun % probe x', ['x']),
    # symbol names are made of letters, digits and _ - letters of any script
    (["def string \u00e9 = 'e-acute'", 'def string gr\u00f6\u00dfe2 = G', 'def list \u540d\u524d = n1 "n 2"', 'def path p\u00e9 = -rel-act pp', 'def string x\u0663 = d'],
     'run % probe @[\u00e9]@ "a @[gr\u00f6\u00dfe2]@ b" pre@[\u00e9]@post @[\u540d\u524d]@ "@[\u540d\u524d]@" @[p\u00e9]@/leaf @[x\u0663]@',
     ['e-acute', 'a G b', 'pree-acutepost', 'n1', 'n 2', 'n1 n 2', '<ACT>/pp/leaf', 'd']),
    (["def string \u00e9 = 'v'", 'def string \u00e92 = "@[\u00e9]@@[\u00e9]@"', 'def list L\u00e9 = @[\u00e92]@ x'], 'run % probe @[L\u00e9]@', ['vv', 'x']),
    # an opener `@[` that is never completed, directly before real references (strings, a list inside a string)
    (["def string A = 'v'", 'def list L = a b', 'def string B = "<@[@[A]@>"', 'def string C = "@[_@[L]@"', 'def string D = x@[y1@[A]@@[A]@'], 'run % probe @[B]@ @[C]@ @[D]@',
     ['<@[v>', '@[_a b', 'x@[y1vv']),
]


def _value(res, case, w, seam):
    setup, probe, want = VALUE_CASES[case[1]]
    text = '[setup]\n' + '\n'.join(setup) + '\n' + probe + '\n[act]\n% atc\n'
    o = cli.run_case(text)
    errs = []
    if o.ident != 'PASS':
        errs.append('outcome %s / %s' % (o.ident, ' / '.join(cli.stderr_lines(o.err)[-3:])[:300]))
    pc = [c for c in seam.calls if c['name'] == 'probe']
    if not pc:
        errs.append('probe not run')
    else:
        c = pc[-1]
        sds = pc[0]['cwd'].split('/act')[0]
        w_ = [a.replace('<ACT>', sds + '/act').replace('<TMP>', sds + '/tmp').replace('<HOME>', str(w.home)) for a in want]
        if c['args'][1:] != w_:
            errs.append('probe got %s, the definitions give %s' % (c['args'][1:], w_))
        if case[1] == 7 and c['timeout'] != 7:
            errs.append('timeout = "3+4" via symbols: %s' % c['timeout'])
    res.outcomes[('value', o.ident)] += 1
    res.nontrivial += 1
    if errs:
        res.violation(case, errs, {'file': text})
    return res
