"""C20 — built-in help agrees with what the program accepts; the manual has no dead links (DESIGN §3 C20).
Finite domain, enumerated completely through the real CLI.  Accepted names are obtained behaviourally
(a one-line case `[phase]\\nNAME`: "Unknown instruction" <=> not accepted)."""
import html.parser
import re

from mc import world, procseam, cli
from mc.result import Result

PROPERTY = 'C20'
LEVEL = 'exploration'
CASE_GUARD_S = {'quick': 300, 'thorough': 3600}  # a case is a composite (a block of expressions x all texts, ...)
CHUNK = 12
RULE = ('every (phase, candidate instruction name) pair [candidates = names listed by `help instructions`, by every `help PHASE instructions`, keys of the public '
        'instruction tables, and bogus names], every suite (section, name) pair, every entity of the 8 entity types, every builtin symbol (listed <=> usable without '
        'definition), every top-level help request, and every href/id of `help htmldoc`; finite and complete; non-trivial = requests about an existing documented item')
ASSUMPTIONS = [
    'the listing format of `help PHASE instructions` / `help ENTITY-TYPE` (name in the first column) is parsed by the harness',
    'a name is accepted in a phase iff a one-line use of it is not reported as "Unknown instruction"',
]

PHASES = ('conf', 'setup', 'before-assert', 'assert', 'cleanup')
ENTITY_TYPES = ('concept', 'directive', 'confparam', 'actor', 'type', 'syntax', 'builtin', 'reporter')
SUITE_SECTIONS = ('conf', 'suites', 'cases', 'setup', 'act', 'before-assert', 'assert', 'cleanup')
TOP = [['help'], ['help', 'help'], ['help', 'case'], ['help', 'case', 'spec'], ['help', 'suite'], ['help', 'suite', 'spec'], ['help', 'symbol'],
       ['help', 'instructions'], ['help', 'act'], ['help', 'conf'], ['help', 'setup'], ['help', 'before-assert'], ['help', 'assert'], ['help', 'cleanup']]
BOGUS = ('no-such-instruction', 'stdin2', 'Def', 'exists-not')

_T = {}


def first_column_names(text, indent=None):
    """Names in the first column of a listing: `<indent>NAME  description` (two or more blanks before the description;
    continuation lines start further right)."""
    names = []
    lines = [l for l in text.split('\n') if l.strip()]
    rows = [l for l in lines if re.match(r'^( *)\S', l)]
    if indent is None:
        inds = [len(re.match(r'^( *)', l).group(1)) for l in rows if '  ' in l.strip()]
        if not inds:
            return names
        indent = min(inds)
    for l in rows:
        m = re.match(r'^( {%d})(\S.*?)(  +\S.*)?$' % indent, l)
        if m and not l.startswith(' ' * (indent + 1)):
            names.append(m.group(2).strip())
    return names


def phase_listing(phase):
    o = cli.run(['help', phase, 'instructions'])
    return o, [n for n in first_column_names(o.out) if not n.startswith('[')]


def prepare(tier):
    cli.main_program()
    procseam.install()
    world.get()
    listed = {}
    for p in PHASES:
        o, names = phase_listing(p)
        listed[p] = names
    o = cli.run(['help', 'instructions'])
    per = {}
    cur = None
    for l in o.out.split('\n'):
        m = re.match(r'^\[(.+)\]$', l.strip())
        if m:
            cur = m.group(1)
            per[cur] = []
        elif cur and l.strip() and not l.strip().startswith('*'):
            per[cur].append(l.strip().split('  ')[0].strip())  # first token of every line; intersected with the candidates below
    _T['listed'] = listed
    _T['listed_all'] = per
    from exactly_lib.cli_default.program_modes.test_case.default_instructions_setup import INSTRUCTIONS_SETUP as I
    tables = {'conf': I.config_instruction_set, 'setup': I.setup_instruction_set, 'before-assert': I.before_assert_instruction_set,
              'assert': I.assert_instruction_set, 'cleanup': I.cleanup_instruction_set}
    cands = set(BOGUS)
    for p in PHASES:
        cands |= set(listed[p]) | set(per.get(p, [])) | set(tables[p].keys())
    cands = {c for c in cands if c in BOGUS or any(c in listed[p] or c in tables[p] for p in PHASES)}
    for p in PHASES:
        per[p] = [n for n in per.get(p, []) if n in cands]
    _T['cands'] = sorted(cands)
    _T['tables'] = {p: sorted(tables[p].keys()) for p in PHASES}
    ents = {}
    for t in ENTITY_TYPES:
        o = cli.run(['help', t])
        ents[t] = (o.rc, first_column_names(o.out))
    _T['ents'] = ents
    from exactly_lib.cli_default.program_modes.test_case import builtin_symbols
    _T['builtin_public'] = sorted(b.name for b in builtin_symbols.ALL)
    o = cli.run_case('[setup]\ndef no-such-type X = 1\n')
    m = re.search(r'Expecting one of ([\w|-]+)', o.err)
    _T['def_types'] = m.group(1).split('|') if m else []
    # suite instructions
    suite = {}
    for s in SUITE_SECTIONS:
        o = cli.run(['help', 'suite', s])
        names = []
        if 'Additional instructions' in o.out:
            names = first_column_names(o.out.split('Additional instructions')[1])
        suite[s] = (o.rc, names)
    _T['suite'] = suite


def cases(tier):
    prepare(tier) if 'cands' not in _T else None
    yield ('top',)
    yield ('listing-consistency',)
    for p in PHASES:
        for n in _T['cands']:
            yield ('instr', p, n)
    for t in ENTITY_TYPES:
        yield ('entity-list', t)
        for n in _T['ents'][t][1]:
            yield ('entity', t, n)
    for n in sorted(set(_T['ents']['builtin'][1]) | set(_T['builtin_public']) | {'EXACTLY_NO_SUCH_BUILTIN'}):
        yield ('builtin', n)
    for s in SUITE_SECTIONS:
        for n in sorted(set(_T['suite'][s][1]) | {'preprocessor', 'no-such-suite-instruction'}):
            yield ('suite-instr', s, n)
    type_cands = sorted(set(_T['ents']['type'][1]) | set(_T['def_types']) | {'no-such-type', 'integer', 'regex'})
    for n in type_cands:
        yield ('type', n)
    for n in sorted(set(_T['ents']['reporter'][1]) | {'no-such-reporter', 'xml'}):
        yield ('reporter', n)
    for n in sorted(set(_T['ents']['confparam'][1])):
        yield ('confparam', n)
    for n in sorted(set(_T['ents']['directive'][1])):
        yield ('directive', n)
    yield ('html',)


def ok_help(o):
    errs = []
    if o.exc:
        errs.append('exception: %s' % o.exc)
    if o.rc != 0:
        errs.append('exit code %s' % o.rc)
    if not o.out.strip():
        errs.append('empty stdout')
    if o.err.strip():
        errs.append('stderr: %r' % o.err[:200])
    return errs


def run(case) -> Result:
    res = Result()
    res.n = 1
    k = case[0]
    w = world.get()
    w.reset()
    errs = []
    if k == 'top':
        for a in TOP:
            e = ok_help(cli.run(a))
            if e:
                errs.append('exactly %s: %s' % (' '.join(a), e))
            res.n += 1
        res.nontrivial += len(TOP)
    elif k == 'listing-consistency':
        for p in PHASES:
            if sorted(_T['listed'][p]) != sorted(_T['listed_all'].get(p, [])):
                errs.append('`help %s instructions` lists %s, `help instructions` lists %s for that phase' % (p, sorted(_T['listed'][p]), sorted(_T['listed_all'].get(p, []))))
        res.nontrivial += 1
    elif k == 'instr':
        _, p, n = case
        listed = n in _T['listed'][p]
        text = '[%s]\n%s\n' % (p, n)
        o = cli.run_case(text)
        unknown = 'Unknown instruction' in o.err
        accepted = not unknown
        if listed != accepted:
            errs.append('[%s] %s: %s by the help, %s by the program (%s)' % (p, n, 'listed' if listed else 'not listed',
                                                                             'accepted' if accepted else 'rejected', o.out.strip()))
        if (n in _T['tables'][p]) != accepted:
            errs.append('[%s] %s: %s the public instruction table but %s' % (p, n, 'in' if n in _T['tables'][p] else 'not in', 'accepted' if accepted else 'rejected'))
        if listed:
            e = ok_help(cli.run(['help', p, n]))
            if e:
                errs.append('help %s %s: %s' % (p, n, e))
            e = ok_help(cli.run(['help', n]))
            if e:
                errs.append('help %s: %s' % (n, e))
            res.nontrivial += 1
        else:
            o2 = cli.run(['help', p, n])
            if o2.rc == 0 and o2.out.strip() and accepted is False and n not in BOGUS:
                errs.append('help %s %s is displayed although the program does not accept %s in [%s]' % (p, n, n, p))
        res.outcomes[('instr', listed, accepted)] += 1
    elif k == 'entity-list':
        t = case[1]
        rc, names = _T['ents'][t]
        if rc != 0 or not names:
            errs.append('help %s: exit %s, %d names' % (t, rc, len(names)))
        res.nontrivial += 1
    elif k == 'entity':
        _, t, n = case
        e = ok_help(cli.run(['help', t] + n.split()))
        if e:
            errs.append('help %s %s: %s' % (t, n, e))
        res.outcomes[('entity', t)] += 1
        res.nontrivial += 1
    elif k == 'builtin':
        n = case[1]
        listed = n in _T['ents']['builtin'][1]
        o = cli.run_case('[setup]\nrun %% prog @[%s]@\n' % n)
        usable = o.rc == 0
        if listed != usable:
            errs.append('builtin symbol %s: %s by the help, but a case referencing it without definition gives %s' % (n, 'listed' if listed else 'not listed', o.out.strip()))
        if (n in _T['builtin_public']) != listed:
            errs.append('builtin symbol %s: listed=%s, in the program\'s builtin table=%s' % (n, listed, n in _T['builtin_public']))
        res.outcomes[('builtin', listed, usable)] += 1
        res.nontrivial += 1 if listed else 0
    elif k == 'suite-instr':
        _, s, n = case
        rc, names = _T['suite'][s]
        listed = n in names
        if s in ('suites', 'cases', 'act'):
            return res  # file-name lines / act source: no instructions
        p = w.write('x.suite', '[%s]\n%s\n' % (s, n))
        o = cli.run(['suite', str(p)])
        accepted = 'Unknown instruction' not in o.err
        if listed and not accepted:
            errs.append('suite [%s] %s: listed by the help but rejected by the program' % (s, n))
        if listed:
            e = ok_help(cli.run(['help', 'suite', s, n]))
            if e:
                errs.append('help suite %s %s: %s' % (s, n, e))
            res.nontrivial += 1
        if n == 'preprocessor' and s == 'conf' and not listed:
            errs.append('suite [conf] preprocessor is accepted but not listed')
        if n == 'no-such-suite-instruction' and accepted:
            errs.append('suite [%s] accepts a bogus instruction name' % s)
        res.outcomes[('suite-instr', listed, accepted)] += 1
    elif k == 'type':
        n = case[1]
        listed = n in _T['ents']['type'][1]
        o = cli.run_case('[setup]\ndef %s X = \n' % n)
        accepted = 'Invalid type' not in o.err
        if listed != accepted:
            errs.append('type %s: %s by `help type`, %s by `def`' % (n, 'listed' if listed else 'not listed', 'accepted' if accepted else 'rejected'))
        if (n in _T['def_types']) != accepted:
            errs.append('type %s: the error message of def lists it: %s, accepted: %s' % (n, n in _T['def_types'], accepted))
        res.outcomes[('type', listed, accepted)] += 1
        res.nontrivial += 1 if listed else 0
    elif k == 'reporter':
        n = case[1]
        listed = n in _T['ents']['reporter'][1]
        p = w.write('r.suite', '[cases]\n')
        o = cli.run(['suite', '--reporter', n, str(p)])
        accepted = o.rc != 64
        if listed != accepted:
            errs.append('suite reporter %s: %s by the help, %s by the program (exit %s)' % (n, 'listed' if listed else 'not listed', 'accepted' if accepted else 'rejected', o.rc))
        res.outcomes[('reporter', listed, accepted)] += 1
        res.nontrivial += 1 if listed else 0
    elif k == 'confparam':
        n = case[1]
        o = cli.run_case('[conf]\n%s = \n' % n)
        if 'Unknown instruction' in o.err:
            errs.append('configuration parameter %s is documented but there is no [conf] instruction of that name' % n)
        res.nontrivial += 1
    elif k == 'directive':
        n = case[1]
        w.write('inc-file.xly', '')
        o = cli.run_case('[setup]\n%s inc-file.xly\n' % n)
        if o.rc != 0:
            errs.append('directive %s is documented but `%s FILE` in [setup] gives %s' % (n, n, o.out.strip()))
        res.nontrivial += 1
    elif k == 'html':
        o = cli.run(['help', 'htmldoc'])
        e = ok_help(o)
        if e:
            errs.append('help htmldoc: %s' % e)
        ids, hrefs = {}, {}
        external, relative = [], []

        class P(html.parser.HTMLParser):
            def handle_starttag(self, tag, attrs):
                d = dict(attrs)
                for key in ('id',):
                    if d.get(key):
                        ids[d[key]] = ids.get(d[key], 0) + 1
                if tag == 'a' and d.get('name'):
                    ids[d['name']] = ids.get(d['name'], 0) + 1
                h = d.get('href')
                if h is None:
                    return
                if h.startswith('#'):
                    hrefs[h[1:]] = hrefs.get(h[1:], 0) + 1
                elif re.match(r'[a-zA-Z][a-zA-Z0-9+.-]*:', h):
                    external.append(h)
                else:
                    # the manual is ONE file: a link that is neither '#anchor' nor an absolute URL is a cross-reference to nothing
                    relative.append(h)

        P().feed(o.out)
        dead = sorted(h for h in hrefs if h not in ids)
        dup = sorted(i for i, c in ids.items() if c > 1)
        if dead:
            errs.append('%d cross-references point at no anchor: %s' % (len(dead), dead[:5]))
        if relative:
            errs.append('%d cross-references are neither #anchor nor absolute URL (dead in a one-file manual): %s' % (len(relative), sorted(relative)[:5]))
        if dup:
            errs.append('%d anchors exist more than once: %s' % (len(dup), dup[:5]))
        if len(ids) < 50 or len(hrefs) < 50:
            errs.append('html document suspiciously small: %d ids, %d link targets' % (len(ids), len(hrefs)))
        res.stats['html anchors'] = len(ids)
        res.stats['html link targets'] = len(hrefs)
        res.stats['html external links'] = len(external)
        res.nontrivial += len(hrefs)
        res.n += len(hrefs)
    if not res.samples and k in ('instr', 'entity'):
        res.samples.append({'request': list(case)})
    if errs:
        res.violation(case, errs)
    return res
