"""C07 — test-case file structure: phases, merging, inclusion, source locations (DESIGN §3 C07).

S-PARSE (real default instruction set): every document over a line-kind alphabet up to a length bound, compared with an
independent reader of the documented file syntax (per-phase elements, first line number, source lines; or the line of the single error).
Block permutations: per-phase sequences and outcome do not depend on the order in which phases are declared.
Inclusion graphs over files {main, a, b, sub/c}: spliced elements, inclusion chains, cycles, missing files.   S-CLI slice: error
reports name the line and text (and the including chain)."""
import collections
import itertools
import pathlib
import re

from mc import world, procseam, cli
from mc.result import Result

PROPERTY = 'C07'
LEVEL = 'exploration'
CASE_GUARD_S = {'quick': 300, 'thorough': 3600}  # a case is a composite (a block of expressions x all texts, ...)
CHUNK = 4
RULE = ('documents = sequences of <= 4 (thorough 5) items over 17 line kinds (header of each of the 6 phases, unknown header, malformed header, comment, blank, whitespace-only, '
        'one-line instruction, multi-line instruction whose here-document holds a header-like and a comment-like line, instruction with description on the previous / same line, with a two-line description followed by an indented instruction, '
        'escaped header line, act-like text line) with and without final newline; all order-preserving permutations of the phase blocks of the valid documents with <= 4 blocks; '
        'inclusion graphs: main = every sequence of <= 4 (thorough 5) items over {[setup], [assert], instruction, including a, including b} x 9 variants of a x 5 of b (self inclusion, a<->b cycle, '
        'cycle back to main, diamond, same file twice, file in sub-directory including its parent\'s sibling, missing file, phase changes inside included files); an included file that is a symbolic link into another directory and includes by relative name (the named file and line hold the shown source line); '
        'non-trivial = the document has at least one instruction or one error; distinct by construction')
ASSUMPTIONS = [
    'instructions are `def string NAME = v` (valid in every instruction phase); identity of an element = the symbol name it defines',
    'for a description on the same line the element source may be the whole line or the instruction part (the statement does not say which)',
]

PHASES = ('conf', 'setup', 'act', 'before-assert', 'assert', 'cleanup')
ATTR = {'setup': 'setup_phase', 'act': 'act_phase', 'before-assert': 'before_assert_phase', 'assert': 'assert_phase', 'cleanup': 'cleanup_phase',
        'conf': 'configuration_phase'}

_T = {}


_TIER = ['quick']


def prepare(tier):
    _TIER[0] = tier
    cli.main_program()
    procseam.install()
    from exactly_lib.cli_default.program_modes.test_case import default_instructions_setup
    from exactly_lib.processing.instruction_setup import TestCaseParsingSetup
    from exactly_lib.processing.parse import test_case_parser
    from exactly_lib.processing.parse.act_phase_source_parser import ActPhaseParser
    from exactly_lib.common import instruction_name_and_argument_splitter
    setup = TestCaseParsingSetup(instruction_name_and_argument_splitter.splitter, default_instructions_setup.INSTRUCTIONS_SETUP, ActPhaseParser())
    _T['parser'] = test_case_parser.new_parser(setup)


def items():
    it = []
    for ph in PHASES:
        it.append(('hdr', ph, ['[%s]' % ph]))
    it.append(('badhdr', None, ['[nophase]']))
    it.append(('malhdr', None, ['[setup] x']))
    it.append(('comment', None, ['# c']))
    it.append(('blank', None, ['']))
    it.append(('space', None, ['  ']))
    it.append(('ins1', None, ['def string S{k} = v']))
    it.append(('insml', None, ['def string S{k} = <<EOF', '[assert]', '# x', 'EOF']))
    it.append(('insdesc', None, ['`d`', 'def string S{k} = v']))
    it.append(('insdesc1', None, ['`d` def string S{k} = v']))
    it.append(('insdesc', None, ['`a description', 'of two lines`', '  \tdef string S{k} = v']))   # description ends on its own line, the instruction is indented
    it.append(('escaped', None, ['\\[x]']))
    it.append(('indented', None, ['   def string S{k} = v   ']))
    return it


IT = items()
NI = len(IT)


def build(seq):
    lines, meta = [], []
    for k, ii in enumerate(seq):
        kind, ph, ls = IT[ii]
        start = len(lines) + 1
        ls = [l.replace('{k}', str(k)) for l in ls]
        lines += ls
        meta.append((kind, ph, start, ls, k))
    return lines, meta


HDR = re.compile(r'[ \t]*\[')


def expect(meta):
    """The independent reader (written from `help case spec` > File syntax).  -> ('ok', {phase: [[first line, [lines]]]}) | ('err', line)"""
    cur = 'act'
    out = collections.defaultdict(list)
    actbuf = None
    for (kind, ph, start, ls, k) in meta:
        if cur == 'act' and kind not in ('hdr', 'badhdr', 'malhdr'):
            consumed = 0
            for j, l in enumerate(ls):
                if HDR.match(l):
                    name = l.strip()[1:-1]
                    cur = name
                    actbuf = None
                    consumed = j + 1
                    rest = ls[consumed:]
                    for jj, r in enumerate(rest):
                        if r.strip() == '' or r.lstrip().startswith('#'):
                            continue
                        return ('err', start + consumed + jj)
                    break
                un = '[' + l[2:] if l.startswith('\\[') else l
                if actbuf is None:
                    actbuf = [start + j, []]
                    out['act'].append(actbuf)
                actbuf[1].append(un)
            continue
        if kind == 'hdr':
            cur = ph
            actbuf = None
            continue
        if kind in ('badhdr', 'malhdr'):
            return ('err', start)
        if kind in ('comment', 'blank', 'space'):
            continue
        if kind == 'escaped':
            return ('err', start)
        if cur == 'conf':
            return ('err', start if kind != 'insdesc' else start + len(ls) - 1)
        if kind == 'insdesc':
            out[cur].append([start + len(ls) - 1, ls[-1:]])
        elif kind == 'insdesc1':
            out[cur].append([start, [ls[0][4:]]])
        elif kind == 'indented':
            out[cur].append([start, ls])
        else:
            out[cur].append([start, ls])
    return ('ok', out)


def actual(text, path='/nonexisting-dir/zz.case'):
    from exactly_lib.section_document.parse_source import ParseSource
    from exactly_lib.section_document import exceptions as sdex
    from exactly_lib.section_document.model import ElementType
    from exactly_lib.processing.test_case_processing import test_case_reference_of_source_file
    ref = test_case_reference_of_source_file(pathlib.Path(path))
    try:
        tc = _T['parser'].apply(ref, ParseSource(text))
    except sdex.FileSourceError as ex:
        return ('err', ex.source.first_line_number)
    except sdex.FileAccessError as ex:
        return ('file-access', str(ex.erroneous_path.name))
    except Exception as ex:  # noqa
        return ('exc', '%s: %s' % (type(ex).__name__, ex))
    out = collections.defaultdict(list)
    for ph, name in ATTR.items():
        for e in getattr(tc, name).elements:
            if e.element_type is ElementType.INSTRUCTION:
                if ph == 'act':
                    out[ph].append([e.source.first_line_number, list(e.instruction_info.instruction.source_code().lines)])
                else:
                    out[ph].append([e.source.first_line_number, list(e.source.lines)])
    return ('ok', out, tc)


def norm_lines(ls):
    return [l.strip() for l in ls]


def same(exp, got):
    if exp[0] != got[0]:
        return False
    if exp[0] == 'err':
        return exp[1] == got[1]
    e = {k: v for k, v in exp[1].items() if v}
    g = {k: v for k, v in got[1].items() if v}
    if set(e) != set(g):
        return False
    for k in e:
        if len(e[k]) != len(g[k]):
            return False
        for a, b in zip(e[k], g[k]):
            if a[0] != b[0]:
                return False
            if k == 'act':
                if a[1] != b[1]:
                    return False
            elif norm_lines(a[1]) != norm_lines(b[1]):
                return False
    return True


def cases(tier):
    L = 4 if tier == 'quick' else 5
    for n in range(0, L + 1):
        if n <= 2:
            yield ('docs', n, ())
        else:
            for pre in itertools.product(range(NI), repeat=n - 2):
                yield ('docs', n, pre)
    for pre in itertools.product(range(NI), repeat=2):
        yield ('perm', pre)
    for av in range(len(A_VARIANTS)):
        for bv in range(len(B_VARIANTS)):
            yield ('incl', av, bv)
    for i in range(len(CLI_ERRORS)):
        yield ('cli-error', i)
    for variant in ('both', 'both-deeper'):
        for errkind in range(3):
            for how in ('relative', 'absolute'):
                yield ('cli-symlink', variant, errkind, how)
    for layout in range(len(CHAIN_LAYOUTS)):
        for kind in range(len(CHAIN_ERRORS)):
            for how in ('relative', 'absolute'):
                yield ('cli-chain', layout, kind, how)


def run(case) -> Result:
    res = Result()
    k = case[0]
    if k == 'docs':
        _, n, pre = case
        for rest in itertools.product(range(NI), repeat=n - len(pre)):
            _doc(res, pre + rest)
    elif k == 'doc-one':
        _doc(res, tuple(case[1]), only_nl=case[2])
    elif k == 'perm':
        _perm(res, case)
    elif k == 'incl':
        _incl(res, case)
    elif k == 'incl-one':
        _incl_one(res, case[1], case[2], tuple(case[3]))
    elif k == 'cli-error':
        _cli_error(res, case)
    elif k == 'cli-chain':
        _cli_chain(res, case)
    elif k == 'cli-symlink':
        _cli_symlink(res, case)
    return res


def _doc(res, seq, only_nl=None):
    lines, meta = build(seq)
    exp = expect(meta)
    for final_nl in (True, False):
        if only_nl is not None and final_nl != only_nl:
            continue
        if not lines and not final_nl:
            continue
        if not final_nl and lines and lines[-1] == '':
            continue
        text = '\n'.join(lines) + ('\n' if final_nl and lines else '')
        got = actual(text)
        res.n += 1
        res.outcomes[exp[0]] += 1
        if not same(exp, got):
            res.violation(('doc-one', seq, final_nl),
                          ['document %r: the file syntax gives %s, the parser %s' % (text, _show(exp), _show(got))])
    if exp[0] == 'err' or any(exp[1].values()):
        res.nontrivial += 1
    if not res.samples and exp[0] == 'ok' and len(seq) >= 3 and sum(len(v) for v in exp[1].values()) >= 2:
        res.samples.append({'document': '\n'.join(lines), 'per_phase': {k: v for k, v in exp[1].items() if v}})


def _show(x):
    if x[0] == 'ok':
        return {k: v for k, v in x[1].items() if v}
    return x[:2]


# ------------------------------------------------------------------------------------------------------
# block permutations
# ------------------------------------------------------------------------------------------------------

def _blocks(seq):
    """Split a valid document into phase blocks [(phase, [item indices])]; the leading default block gets an explicit [act] header."""
    blocks = [('act', [])]
    for ii in seq:
        kind, ph, ls = IT[ii]
        if kind == 'hdr':
            blocks.append((ph, []))
        else:
            blocks[-1][1].append(ii)
    return blocks


def _perm(res, case):
    """For every valid document of 4 items starting with `pre` that has 2..4 blocks: all permutations that keep the order of same-phase
    blocks give the same per-phase sequences (S-PARSE) — and the same outcome through the CLI for the first of them."""
    pre = case[1]
    w = world.get()
    for rest in itertools.product(range(NI), repeat=2):
        seq = pre + rest
        lines, meta = build(seq)
        exp = expect(meta)
        if exp[0] != 'ok':
            continue
        if any(IT[i][0] in ('insml',) for i in seq):
            continue  # (a here-document holding a header-like line reads differently in the act phase: not a permutation of blocks)
        blocks = _blocks(seq)
        # items get their identity from position k in the original document
        named = []
        k = 0
        for ph, iis in blocks:
            ls = []
            for ii in iis:
                pass
            named.append((ph, iis))
        if not (2 <= len(blocks) <= 4):
            continue
        # render blocks with stable symbol names
        rendered = []
        k = 0
        first = True
        for ph, iis in blocks:
            ls = ['[%s]' % ph]
            for ii in iis:
                ls += [l.replace('{k}', str(k)) for l in IT[ii][2]]
                k += 1
            if first:
                first = False
            else:
                k += 1  # the header item consumed an index in build(); keep names equal to the original numbering
            rendered.append((ph, ls))
        base = actual('\n'.join(sum((ls for _, ls in rendered), [])) + '\n')
        if base[0] != 'ok':
            continue
        ref = _by_phase(base)
        n = 0
        for perm in itertools.permutations(range(len(rendered))):
            # keep the relative order of blocks of the same phase
            ok = True
            for ph in set(p for p, _ in rendered):
                idx = [i for i in perm if rendered[i][0] == ph]
                if idx != sorted(idx):
                    ok = False
            if not ok or perm == tuple(range(len(rendered))):
                continue
            text = '\n'.join(sum((rendered[i][1] for i in perm), [])) + '\n'
            got = actual(text)
            res.n += 1
            n += 1
            if got[0] != 'ok' or _by_phase(got) != ref:
                res.violation(case, ['phase blocks %s in order %s: per-phase contents %s differ from the original order %s' % (
                    [p for p, _ in rendered], perm, _by_phase(got) if got[0] == 'ok' else got[:2], ref)], {'document': text})
        if n:
            res.nontrivial += 1
    res.outcomes['perm'] += 1


def _by_phase(parsed):
    return {k: [[l.strip() for l in e[1]] for e in v] for k, v in parsed[1].items() if v}


# ------------------------------------------------------------------------------------------------------
# inclusion graphs
# ------------------------------------------------------------------------------------------------------
# file contents are lists of items: ('H', phase) | ('I',) | ('inc', relative path)
A_VARIANTS = [
    [('I',)],
    [('H', 'assert'), ('I',)],
    [('I',), ('H', 'assert'), ('I',), ('H', 'cleanup'), ('I',)],
    [('inc', 'b.xly'), ('I',)],
    [('I',), ('inc', 'sub/c.xly')],
    [('inc', 'a.xly')],
    [('I',), ('inc', 'main.case')],
    [('H', 'setup'), ('inc', 'b.xly'), ('H', 'assert'), ('I',)],
    [('H', 'before-assert'), ('I',), ('I',)],
]
B_VARIANTS = [
    [('I',)],
    [('H', 'assert'), ('I',)],
    [('inc', 'a.xly')],
    [('I',), ('inc', 'no-such-file.xly')],
    [('H', 'cleanup'), ('I',), ('H', 'before-assert'), ('I',)],
]
C_FILE = [('I',), ('inc', '../b.xly')]
MAIN_ALPHABET = [('H', 'setup'), ('H', 'assert'), ('I',), ('inc', 'a.xly'), ('inc', 'b.xly')]


def render_file(name, content):
    lines = []
    for n, it in enumerate(content):
        if it[0] == 'H':
            lines.append('[%s]' % it[1])
        elif it[0] == 'I':
            lines.append('def string %s_%d = v' % (re.sub(r'\W', '_', name), n + 1))
        else:
            lines.append('including ' + it[1])
    return '\n'.join(lines) + '\n'


class Cycle(Exception):
    pass


class Missing(Exception):
    pass


def ref_read(name, files, phase, chain, visiting, out):
    """Reference reader of inclusion: splices the included file's per-phase elements at the directive; the included file starts in the
    including phase and cannot change the including file's phase."""
    if name not in files:
        raise Missing(name)
    if name in visiting:
        raise Cycle(name)
    cur = phase
    for n, it in enumerate(files[name]):
        line = n + 1
        if it[0] == 'H':
            cur = it[1]
        elif it[0] == 'I':
            if cur == 'act':
                out['act-lines'].append((name, line))
            else:
                out[cur].append(('%s_%d' % (re.sub(r'\W', '_', name), line), name, line, tuple(chain)))
        else:
            if cur == 'act':
                out['act-lines'].append((name, line))
                continue
            target = str(pathlib.PurePosixPath(name).parent / it[1])
            target = _normpath(target)
            ref_read(target, files, cur, chain + [(name, line)], visiting | {name}, out)


def _normpath(p):
    parts = []
    for x in p.split('/'):
        if x == '..':
            parts.pop()
        elif x not in ('.', ''):
            parts.append(x)
    return '/'.join(parts)


def cases_main():
    out = []
    # length 4 is the shortest main file with two inclusions under two different explicit headers
    for n in range(1, 5 if _TIER[0] == 'quick' else 6):
        out += list(itertools.product(range(len(MAIN_ALPHABET)), repeat=n))
    return out


def _incl(res, case):
    _, av, bv = case
    for m in cases_main():
        _incl_one(res, av, bv, m)


def _incl_one(res, av, bv, m):
    from exactly_lib.section_document.parse_source import ParseSource
    w = world.get()
    w.reset()
    files = {'main.case': [MAIN_ALPHABET[i] for i in m], 'a.xly': A_VARIANTS[av], 'b.xly': B_VARIANTS[bv], 'sub/c.xly': C_FILE}
    for name, content in files.items():
        w.write(name, render_file(name, content))
    out = collections.defaultdict(list)
    try:
        ref_read('main.case', files, 'act', [], frozenset(), out)
        exp = ('ok', out)
    except Cycle as ex:
        exp = ('file-access', 'cycle')
    except Missing as ex:
        exp = ('file-access', 'missing')
    text = render_file('main.case', files['main.case'])
    got = actual(text, str(w.home / 'main.case'))
    res.n += 1
    one = ('incl-one', av, bv, m)
    errs = []
    if exp[0] == 'file-access':
        if got[0] != 'file-access':
            errs.append('%s inclusion: expected a file access error, the parser gives %s' % (exp[1], _show(got) if got[0] != 'ok' else 'a document'))
    elif got[0] != 'ok':
        errs.append('valid inclusion graph: the parser gives %s' % (got[:2],))
    else:
        tc = got[2]
        for ph in ('setup', 'before-assert', 'assert', 'cleanup', 'conf'):
            elems = [e for e in getattr(tc, ATTR[ph]).elements if e.element_type.name == 'INSTRUCTION']
            want = exp[1].get(ph, [])
            gotl = []
            for e in elems:
                mname = re.match(r'def string (\w+) = v', e.source.lines[0].strip())
                slp = e.source_location_info.source_location_path
                chain = tuple((str(c.file_path_rel_referrer), c.source.first_line_number) for c in slp.file_inclusion_chain)
                gotl.append((mname.group(1) if mname else e.source.lines[0], e.source.first_line_number, chain))
            wantl = []
            for (sym, f, line, chain) in want:
                # chain as the parser reports it: (path of the file holding the directive relative to ITS referrer, line of the directive)
                wantl.append((sym, line, chain))
            if [x[0] for x in gotl] != [x[0] for x in wantl]:
                errs.append('[%s]: instructions %s, splicing at the directives gives %s' % (ph, [x[0] for x in gotl], [x[0] for x in wantl]))
            else:
                for g, w_ in zip(gotl, wantl):
                    if g[1] != w_[1]:
                        errs.append('[%s] %s: line %s, it is on line %s of its file' % (ph, g[0], g[1], w_[1]))
                    if [c[1] for c in g[2]] != [c[1] for c in w_[2]]:
                        errs.append('[%s] %s: inclusion chain lines %s, expected %s' % (ph, g[0], [c[1] for c in g[2]], [c[1] for c in w_[2]]))
                    elif [pathlib.PurePosixPath(c[0]).name for c in g[2]] != [pathlib.PurePosixPath(c[0]).name for c in w_[2]]:
                        errs.append('[%s] %s: inclusion chain files %s, expected %s' % (ph, g[0], [c[0] for c in g[2]], [c[0] for c in w_[2]]))
    res.outcomes[('incl', exp[0], exp[1] if exp[0] != 'ok' else '')] += 1
    if any(it[0] == 'inc' for it in files['main.case']):
        res.nontrivial += 1
    if errs:
        res.violation(one, errs, {'files': {n: render_file(n, c) for n, c in files.items()}})


# ------------------------------------------------------------------------------------------------------
# CLI: error reports carry line number, text and the chain of including files
# ------------------------------------------------------------------------------------------------------
CLI_ERRORS = [
    # (files, identifier, [strings that stderr must contain in this order])
    ({'main.case': '[setup]\n\n# c\ndef string A = 1\nno-such-instruction x y\n'}, 'SYNTAX_ERROR', ['main.case, line 5', 'no-such-instruction x y']),
    ({'main.case': '[setup]\ndef string A = 1\n[nophase]\n'}, 'SYNTAX_ERROR', ['main.case, line 3', '[nophase]']),
    ({'main.case': '[setup]\nincluding a.xly\n', 'a.xly': 'def string A = 1\n\nno-such-instruction\n'}, 'SYNTAX_ERROR',
     ['main.case, line 2', 'including a.xly', 'a.xly, line 3', 'no-such-instruction']),
    ({'main.case': '[assert]\n# x\nincluding sub/c.xly\n', 'sub/c.xly': 'including ../b.xly\n', 'b.xly': '[setup]\ndef nosuchtype X = 1\n'}, 'SYNTAX_ERROR',
     ['main.case, line 3', 'including sub/c.xly', 'c.xly, line 1', 'including ../b.xly', 'b.xly, line 2', 'def nosuchtype X = 1']),
    ({'main.case': '[setup]\ndef string A = 1\nincluding missing.xly\n'}, 'FILE_ACCESS_ERROR', ['main.case, line 3', 'including missing.xly']),
    ({'main.case': '[setup]\nincluding a.xly\n', 'a.xly': 'including b.xly\n', 'b.xly': 'including a.xly\n'}, 'FILE_ACCESS_ERROR',
     ['main.case, line 2', 'a.xly, line 1', 'b.xly, line 1']),
    ({'main.case': '[setup]\ndef string A = <<EOF\nline\n'}, 'SYNTAX_ERROR', ['main.case, line 2', 'def string A = <<EOF']),
    ({'main.case': '[setup]\nincluding a.xly\n[assert]\nexit-code == 0\n', 'a.xly': '[cleanup]\nrun % x @[UNDEFINED]@\n'}, 'VALIDATION_ERROR',
     ['main.case, line 2', 'including a.xly', 'a.xly, line 2', 'run % x @[UNDEFINED]@']),
]


def _cli_error(res, case):
    files, ident, needles = CLI_ERRORS[case[1]]
    w = world.get()
    w.reset()
    procseam.SEAM.reset()
    for n, t in files.items():
        w.write(n, t)
    o = cli.run([str(w.home / 'main.case')])
    res.n += 1
    res.nontrivial += 1
    errs = []
    if o.ident != ident or o.rc != 65:
        errs.append('outcome %s (rc %s), expected %s' % (o.ident, o.rc, ident))
    pos = 0
    for nd in needles:
        i = o.err.find(nd, pos)
        if i < 0:
            errs.append('error report does not contain %r (after position %d): %r' % (nd, pos, o.err[:700]))
            break
        pos = i + len(nd)
    res.outcomes[('cli-error', o.ident)] += 1
    if errs:
        res.violation(case, errs)


# chains of including files across directories: (path of the case, path of b relative to the case's dir, path of c relative to b's dir)
CHAIN_LAYOUTS = [('a.case', 'b.xly', 'c.xly'), ('cases/a.case', 'b.xly', 'c.xly'), ('cases/a.case', 'inc/b.xly', 'more/c.xly'), ('a.case', 'inc/b.xly', 'more/c.xly'),
                 ('cases/a.case', '../b.xly', 'sub/c.xly'), ('x/y/a.case', 'inc/b.xly', '../c.xly'), ('cases/a.case', 'inc/b.xly', 'more/c.xly', 'deep/er/d.xly')]
CHAIN_ERRORS = [('no-such-instruction x', 'SYNTAX_ERROR', 65), ('including missing-file.xly', 'FILE_ACCESS_ERROR', 65), ('run % p @[UNDEFINED]@', 'VALIDATION_ERROR', 65),
                ('stub-less-hard-error', 'HARD_ERROR', 128), ('cycle-to-root', 'FILE_ACCESS_ERROR', 65)]


def _cli_symlink(res, case):
    """An included file that is a symbolic link into another directory and itself includes a file by a relative name that exists (with other
    contents) both beside the link and beside its target: whichever directory "the directory of the current source file" is taken to be, the file
    and line NAMED in the report hold the source line SHOWN in it."""
    import os
    _, variant, ek, how = case
    errline, ident, rc = [('no-such-instruction x', 'SYNTAX_ERROR', 65), ('run % p @[UNDEFINED]@', 'VALIDATION_ERROR', 65),
                          ('file -rel-act clash/x\nfile -rel-act clash/x', 'HARD_ERROR', 128)][ek]
    w = world.get()
    w.reset()
    procseam.SEAM.reset()
    procseam.SEAM.default = {'exit': 0}
    sub = 'lib' if variant == 'both' else 'lib/deep/er'
    w.write('cases/x.case', "[setup]\ndef string S0 = 'v'\nincluding shared.xly\n")
    w.write(sub + '/shared.xly', '# the shared file\nincluding local.xly\n')
    os.symlink(os.path.relpath(str(w.home / sub / 'shared.xly'), str(w.home / 'cases')), str(w.home / 'cases' / 'shared.xly'))
    w.write('cases/local.xly', '# beside the link\n\n' + errline + '   # cases\n'.replace('   # cases', '') )
    w.write(sub + '/local.xly', errline.replace(' x', ' y').replace('UNDEFINED', 'UNDEF_IN_LIB').replace('clash', 'clash-lib') + '\n')
    os.chdir(str(w.home))
    o = cli.run(['cases/x.case' if how == 'relative' else str(w.home / 'cases/x.case')])
    res.n += 1
    res.nontrivial += 1
    errs = []
    if o.ident != ident or o.rc != rc:
        errs.append('outcome %s (rc %s), expected %s' % (o.ident, o.rc, ident))
    lines = o.err.split('\n')
    locs = [(i, m.group(1), int(m.group(2))) for i, l in enumerate(lines) for m in [re.match(r'^(\S.*), line (\d+)$', l)] if m]
    if not locs:
        errs.append('the report names no file and line: %r' % o.err[:600])
    else:
        i, fname, n = locs[-1]
        shown = next((l.strip() for l in lines[i + 1:] if l.strip()), None)
        try:
            with open(fname if os.path.isabs(fname) else str(w.home / fname)) as f:
                held = f.read().split('\n')
            actual = held[n - 1].strip() if 0 < n <= len(held) else '<no such line>'
        except OSError as ex:
            actual = '<%s>' % ex
        if shown != actual:
            errs.append('the report names %s, line %d and shows the source line %r; that line of that file is %r' % (fname, n, shown, actual))
        names = [f_ for _, f_, _ in locs]
        if not any(f_.endswith('x.case') for f_ in names) or not any(f_.endswith('shared.xly') for f_ in names):
            errs.append('the chain of including files is incomplete: %s' % names)
    res.outcomes[('cli-symlink', o.ident)] += 1
    if errs:
        res.violation(case, errs, {'stderr': o.err[:900]})
    return res


def _cli_chain(res, case):
    """The error report lists, in order, every including file with its real path (relative to the current directory when the case is
    given by a relative path) and directive line, ending with the file and line of the failing instruction."""
    import os
    import posixpath
    _, li, ki, how = case
    layout = CHAIN_LAYOUTS[li]
    errline, ident, rc = CHAIN_ERRORS[ki]
    if errline == 'stub-less-hard-error':
        errline = 'file -rel-act existing-dir-clash/x\nfile -rel-act existing-dir-clash/x'
    w = world.get()
    w.reset()
    procseam.SEAM.reset()
    procseam.SEAM.default = {'exit': 0}
    paths = [layout[0]]
    for rel in layout[1:]:
        paths.append(posixpath.normpath(posixpath.join(posixpath.dirname(paths[-1]), rel)))
    cycle = errline == 'cycle-to-root'
    if cycle:
        # the last file includes the test-case file itself: reported at THAT directive, with every including file named once
        errline = 'including ' + posixpath.relpath(paths[0], posixpath.dirname(paths[-1]) or '.')
    for i, p in enumerate(paths):
        if i + 1 < len(paths):
            pre = '[setup]\n' if i == 0 else ''
            w.write(p, pre + '# comment\n' * i + "def string S%d = 'v'\n" % i + 'including %s\n' % layout[i + 1])
        else:
            w.write(p, '\n' * i + errline + '\n')
    os.chdir(str(w.home))
    arg = paths[0] if how == 'relative' else str(w.home / paths[0])
    o = cli.run([arg])
    res.n += 1
    res.nontrivial += 1
    errs = []
    if o.ident != ident or o.rc != rc:
        errs.append('outcome %s (rc %s), expected %s' % (o.ident, o.rc, ident))
    prefix = '' if how == 'relative' else str(w.home) + '/'
    pos = 0
    for i, p in enumerate(paths):
        if i + 1 < len(paths):
            line = (2 if i == 0 else 0) + i + 2 - (1 if i else 0)
            line = (1 if i == 0 else 0) + i + 2
            needle = '%s%s, line %d' % (prefix, p, line)
        else:
            needle = '%s%s, line ' % (prefix, p)
        j = o.err.find(needle, pos)
        if j < 0:
            errs.append('the report does not name %r (in order, after position %d): %r' % (needle, pos, o.err[:900]))
            break
        pos = j + len(needle)
    if cycle and not errs:
        first = '%s%s, line' % (prefix, paths[0])
        if o.err.count(first) != 1:
            errs.append('the report names the test-case file %d times in the chain of including files, expected once: %r' % (o.err.count(first), o.err[:900]))
        if o.err.find(errline, pos) < 0:
            errs.append('the report does not show the directive that closes the cycle (`%s` in %s) after the chain: %r' % (errline, paths[-1], o.err[:900]))
    res.outcomes[('cli-chain', o.ident)] += 1
    if errs:
        res.violation(case, errs)
