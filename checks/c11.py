"""C11 — settings persist forward: cd, env (act / non-act), timeout (DESIGN §3 C11).

Explicit-state BFS: a state is the history of events that reaches it; the canonical form is the state of the
reference settings machine (phase, cwd, act env, non-act env, timeout); histories whose canonical state has been
seen are not extended.  Every transition executes the *whole* history as one generated test case from a fresh
world through the real CLI; a probe process after every event (and the action to check) records what it sees at
the process seam.
"""
import os

from mc import world, procseam, cli
from mc.result import Result

PROPERTY = 'C11'
LEVEL = 'model_checking'
CHUNK = {'quick': 60, 'thorough': 150}
RULE = ('events: cd {new sub-directory, .., -rel-tmp, -rel-act}; env X = v | "${X}b" | "${Y}" | "${nope}c", env unset X | Y, each with no phase spec, -of act, '
        '-of !act; timeout = 3 | 0 (the smallest legal value: it is a limit, not the absence of one) | none; env Y = -stdout-from PROGRAM with each phase spec (the program must run once per changed set, in the environment of that set); advance to the next phase (setup -> [act] -> before-assert -> assert -> cleanup). BFS over histories to depth 4 (and to depth 3 - thorough 4 - once more with exactly constructed with an explicit starting environment) '
        '(thorough 6) with deduplication on the reference state; every transition = one real execution with a probe after every event; non-trivial = the '
        'reference state after the history differs from the initial one')
ASSUMPTIONS = [
    'probe processes are virtual children: they record the cwd, environment (projected on X, Y, Z) and timeout they are started with',
    'Y=y0 is set in the environment exactly is started with, X is not set',
    'a child changing its own directory is explored with real processes (compiled probe) in a 12-case slice',
]

PHASES = ('setup', 'before-assert', 'assert', 'cleanup')
SPECS = ('', '-of act ', '-of !act ')
ENVOPS = [('set', 'X', 'v'), ('set', 'X', '${X}b'), ('set', 'X', '${Y}'), ('set', 'X', '${nope}c'), ('unset', 'X', None), ('unset', 'Y', None)]
EVENTS = ([('cd', k) for k in ('new', 'up', 'tmp', 'act')] +
          [('env', spec, op) for spec in range(3) for op in range(len(ENVOPS))] +
          [('timeout', v) for v in (3, 0, None)] + [('next',)] +
          [('envprog', spec) for spec in range(3)])
BASE_ENV = {'Y': 'y0'}


# ------------------------------------------------------------------------------------------------
# reference settings machine (from the env / cd / timeout pages and the three concept pages)
# ------------------------------------------------------------------------------------------------

def initial():
    return {'phase': 0, 'cwd': ('act',), 'act': dict(BASE_ENV), 'nonact': dict(BASE_ENV), 'timeout': 60, 'ndirs': 0}


def expand(value, env):
    out = value
    for name in ('X', 'Y', 'nope'):
        out = out.replace('${%s}' % name, env.get(name, ''))
    return out


def step(st, ev):
    """-> (new state, instruction lines) or None if the event is not enabled."""
    st = {k: (dict(v) if isinstance(v, dict) else v) for k, v in st.items()}
    k = ev[0]
    lines = []
    if k == 'next':
        if st['phase'] >= len(PHASES) - 1:
            return None
        st['phase'] += 1
        return st, None
    if k == 'cd':
        how = ev[1]
        if how == 'new':
            st['ndirs'] += 1
            name = 's%d' % st['ndirs']
            lines = ['dir %s' % name, 'cd %s' % name]
            st['cwd'] = st['cwd'] + (name,)
        elif how == 'up':
            if len(st['cwd']) <= 1:
                return None  # stay inside the sandbox
            lines = ['cd ..']
            st['cwd'] = st['cwd'][:-1]
        elif how == 'tmp':
            lines = ['cd -rel-tmp .']
            st['cwd'] = ('tmp',)
        else:
            lines = ['cd -rel-act .']
            st['cwd'] = ('act',)
        return st, lines
    if k == 'env':
        spec = SPECS[ev[1]]
        op, name, value = ENVOPS[ev[2]]
        sets = {'': ('act', 'nonact'), '-of act ': ('act',), '-of !act ': ('nonact',)}[spec]
        if op == 'set':
            lines = ['env %s%s = "%s"' % (spec, name, value)]
            for s in sets:
                st[s][name] = expand(value, st[s])
        else:
            lines = ['env %sunset %s' % (spec, name)]
            for s in sets:
                st[s].pop(name, None)
        return st, lines
    if k == 'envprog':
        # `env [-of ..] Y = -stdout-from % valprobe`: the program runs in the environment of each set that is changed
        spec = SPECS[ev[1]]
        sets = {'': ('act', 'nonact'), '-of act ': ('act',), '-of !act ': ('nonact',)}[spec]
        st.setdefault('valprobes', [])
        st.setdefault('valprobes_optional', [])
        for s_ in sets:
            rec = (tuple(sorted((k_, v_) for k_, v_ in st[s_].items() if k_ in ('X', 'Y'))), st['timeout'], st['cwd'])
            if s_ == 'act' and st['phase'] > 0:
                # after [setup] a change of the act set has nothing left to affect: computing the value is optional (today it is not computed)
                st['valprobes_optional'] = list(st['valprobes_optional']) + [rec]
            else:
                st['valprobes'] = list(st['valprobes']) + [rec]
        for s_ in sets:
            st[s_]['Y'] = 'val'
        return st, ['env %sY = -stdout-from %% valprobe' % spec]
    if k == 'timeout':
        st['timeout'] = ev[1]
        return st, ['timeout = %s' % ('none' if ev[1] is None else ev[1])]
    raise ValueError(ev)


def canon(st):
    return (st['phase'], st['cwd'], tuple(sorted(st['act'].items())), tuple(sorted(st['nonact'].items())), st['timeout'])


def bfs(depth):
    """All histories (as tuples of event indices) that are transitions of the deduplicated graph."""
    seen = {canon(initial())}
    frontier = [((), initial())]
    out = []
    for d in range(depth):
        nxt = []
        for hist, st in frontier:
            for ei, ev in enumerate(EVENTS):
                r = step(st, ev)
                if r is None:
                    continue
                nst, _ = r
                h = hist + (ei,)
                out.append(h)
                c = canon(nst)
                if c not in seen:
                    seen.add(c)
                    nxt.append((h, nst))
        frontier = nxt
    return out


def prepare(tier):
    cli.main_program()
    procseam.install()


VERIF = os.path.dirname(os.path.dirname(os.path.abspath(__file__)))
PROBE = os.path.join(VERIF, 'build', 'probe')


def cases(tier):
    yield ()
    if os.path.exists(PROBE):
        for phase in PHASES:
            for target in ('/', '..', 'sub'):
                yield ('real-chdir', phase, target)
    for h in bfs(4 if tier == 'quick' else 6):
        yield h
    # the same histories with exactly constructed with an EXPLICIT starting environment (a dict of the embedder instead of "read os.environ"):
    # the act set and the non-act set are still two sets, and the embedder's dict is not changed
    for h in bfs(3 if tier == 'quick' else 4):
        yield ('explicit',) + h
    # the action to check under the other actors that start a process (file interpreter, source interpreter): it still gets the ACT set
    for actor in ('actor-file', 'actor-source'):
        for h in bfs(2 if tier == 'quick' else 3):
            yield (actor,) + h


def build(hist):
    """-> (test case text, [expected probe records in order])"""
    st = initial()
    phases = {p: [] for p in PHASES}
    expected = {p: [] for p in PHASES}
    n = 0
    act_expect = None
    graph = [canon(st)]
    for ei in hist:
        ev = EVENTS[ei]
        was = st['phase']
        st, lines = step(st, ev)
        graph.append(canon(st))
        if ev[0] == 'next':
            if was == 0:
                act_expect = None  # filled below
            continue
        ph = PHASES[st['phase']]
        n += 1
        phases[ph] += lines + ['run %% probe %d' % n]
        expected[ph].append((n, _snap(st, 'nonact')))
    # the action to check sees the state at the end of [setup]
    st2 = initial()
    for ei in hist:
        if EVENTS[ei][0] == 'next':
            break
        st2, _ = step(st2, EVENTS[ei])
    act_expect = _snap(st2, 'act')
    text = ['[setup]', 'run % probe 0'] + phases['setup'] + ['[act]', '% atc']
    for p in PHASES[1:]:
        text += ['[%s]' % p] + phases[p]
    text += ['run % probe 999'] if False else []
    exp = [('probe', '0', _snap(initial(), 'nonact'))]
    exp += [('probe', str(k), s) for k, s in expected['setup']]
    exp.append(('atc', None, act_expect))
    for p in PHASES[1:]:
        exp += [('probe', str(k), s) for k, s in expected[p]]
    return '\n'.join(text) + '\n', exp, graph, st


def _snap(st, which):
    e = st[which]
    return {'cwd': st['cwd'], 'env': {k: e[k] for k in ('X', 'Y') if k in e}, 'timeout': st['timeout']}


def run_real_chdir(case) -> Result:
    """A REAL child that changes its own directory does not change the test's current directory (real processes, compiled probe)."""
    import json
    _, phase, target = case
    res = Result()
    res.n = 1
    res.nontrivial += 1
    w = world.get()
    w.reset()
    seam = procseam.SEAM
    seam.reset()
    seam.real = True
    d1, d2, d3 = str(w.ext / 'd1.json'), str(w.ext / 'd2.json'), str(w.ext / 'd3.json')
    blocks = {p: [] for p in PHASES}
    blocks['setup'] += ['dir sub']
    blocks[phase] += ['run %% %s --chdir %s' % (PROBE, target), 'run %% %s --dump %s' % (PROBE, d1)]
    later = PHASES[min(PHASES.index(phase) + 1, len(PHASES) - 1)]
    blocks[later] += ['$ cd / ; true', 'run %% %s --dump %s' % (PROBE, d2)]
    text = '[setup]\n' + '\n'.join(blocks['setup']) + '\n[act]\n%% %s --chdir %s --dump %s\n' % (PROBE, target, d3)
    for p in PHASES[1:]:
        text += '[%s]\n' % p + '\n'.join(blocks[p]) + '\n'
    o = cli.run_case(text)
    errs = []
    if o.ident != 'PASS':
        errs.append('outcome %s / %s' % (o.ident, ' / '.join(cli.stderr_lines(o.err)[:5])))
    cwds = []
    for f in (d1, d2, d3):
        try:
            with open(f) as fh:
                cwds.append(json.load(fh)['cwd'])
        except Exception as ex:  # noqa
            cwds.append('no dump: %s' % ex)
    if not all(c.endswith('/act') for c in cwds):
        errs.append('after a child changed ITS directory to %s in [%s], later processes start in %s (expected <sds>/act)' % (target, phase, cwds))
    diff = w.process_state_diff()
    if diff:
        errs.append('process state of the caller changed: %s' % diff[:2])
    res.outcomes[('real-chdir', o.ident)] += 1
    res.stats['real-process cases'] += 1
    res.states.add(('real-chdir', phase))
    if errs:
        res.violation(case, errs, {'file': text})
    else:
        res.validated += 1
    return res


_EXPL = {}


def explicit_main_program():
    if 'mp' not in _EXPL:
        from exactly_lib.definitions import os_proc_env
        from exactly_lib.cli_default.default_main_program_setup import default_main_program
        old = os_proc_env.ENV_VARS__DEFAULT
        _EXPL['environ'] = dict(os.environ)
        os_proc_env.ENV_VARS__DEFAULT = _EXPL['environ']
        try:
            _EXPL['mp'] = default_main_program()
        finally:
            os_proc_env.ENV_VARS__DEFAULT = old
        _EXPL['before'] = dict(_EXPL['environ'])
    return _EXPL['mp']


def run(case) -> Result:
    if case and case[0] == 'real-chdir':
        return run_real_chdir(case)
    explicit = bool(case) and case[0] == 'explicit'
    actor = case[0] if case and case[0] in ('actor-file', 'actor-source') else None
    hist = tuple(case[1:]) if (explicit or actor) else tuple(case)
    res = Result()
    res.n = 1
    w = world.get()
    if os.environ.get('Y') != 'y0' or 'X' in os.environ:
        os.environ['Y'] = 'y0'
        os.environ.pop('X', None)
        w.environ0 = dict(os.environ)
    w.reset()
    seam = procseam.SEAM
    seam.reset()
    seam.env_keys = ('X', 'Y')
    seam.script['valprobe'] = {'out': 'val'}
    text, exp, graph, final = build(hist)
    if actor:
        w.write('src.txt', 'source\n')
        text = '[conf]\nactor = %s %% atc\n' % actor[6:] + text.replace('[act]\n% atc\n', '[act]\nsrc.txt\n' if actor == 'actor-file' else '[act]\nsome source code\n', 1)
    o = cli.run_case(text, mp=explicit_main_program()) if explicit else cli.run_case(text)
    errs = []
    if explicit and _EXPL['environ'] != _EXPL['before']:
        errs.append('the starting environment supplied to exactly (a dict of the embedder) was changed by the test case: %s' % sorted(
            set(_EXPL['environ'].items()) ^ set(_EXPL['before'].items()))[:4])
        _EXPL['environ'].clear()
        _EXPL['environ'].update(_EXPL['before'])
    if o.exc:
        errs.append('exception / hang: %s' % o.exc)
    if o.rc != 0 or o.out != 'PASS\n':
        errs.append('the generated case must PASS: rc=%s %s / %s' % (o.rc, o.out.strip(), ' / '.join(cli.stderr_lines(o.err)[:6])))
    valcalls = [c for c in seam.calls if c['name'] == 'valprobe']
    calls = [c for c in seam.calls if c['name'] != 'valprobe']
    want_val = sorted(final.get('valprobes', []))
    got_val = sorted((tuple(sorted((c['env'] if c['env'] is not None else BASE_ENV).items())), c['timeout'],
                      tuple(os.path.relpath(c['cwd'], os.path.dirname(calls[0]['cwd'])).split('/')) if calls else ()) for c in valcalls)
    import collections as _c
    need = _c.Counter(want_val)
    have = _c.Counter(got_val)
    may = _c.Counter(final.get('valprobes_optional', []))
    if (need - have) or ((have - need) - may):
        errs.append('programs giving the value of `env` ran with (environment, timeout, cwd) %s, expected one per changed set: %s' % (got_val, want_val))
    if len(calls) != len(exp):
        errs.append('%d processes started, expected %d' % (len(calls), len(exp)))
    sds = None
    for c, (name, arg, snap) in zip(calls, exp):
        ident = '%s %s' % (name, arg) if arg else name
        if c['name'] != name or (arg is not None and c['args'][1:] != [arg]):
            errs.append('process %s started where %s was expected' % (c['args'], ident))
            break
        if sds is None:
            # probe 0 runs in <sds>/act
            sds = os.path.dirname(c['cwd'])
        want_cwd = os.path.join(sds, *snap['cwd'])
        if os.path.realpath(c['cwd']) != os.path.realpath(want_cwd):
            errs.append('%s: current directory %s, expected <sds>/%s' % (ident, c['cwd'].replace(sds, '<sds>'), '/'.join(snap['cwd'])))
        env = c['env'] if c['env'] is not None else {k: v for k, v in BASE_ENV.items()}
        if env != snap['env']:
            errs.append('%s: environment (X, Y) is %s, expected %s' % (ident, env, snap['env']))
        if c['timeout'] != snap['timeout']:
            errs.append('%s: timeout %s, expected %s' % (ident, c['timeout'], snap['timeout']))
    diff = w.process_state_diff()
    if diff:
        errs.append('process state of the caller changed: %s' % diff[:2])
    for a, b, ei in zip(graph, graph[1:], hist):
        res.states.add(a)
        res.states.add(b)
        res.trans.add((a, ei, b) if not (explicit or actor) else (case[0], a, ei, b))
    res.states.add(graph[0])
    if not errs:
        res.validated += 1
    if graph[-1][1:] != graph[0][1:]:
        res.nontrivial += 1
    res.outcomes[(o.ident, len(calls))] += 1
    if not res.samples and len(hist) >= 3:
        res.samples.append({'history': [EVENTS[e] for e in hist], 'file': text,
                            'probes': [{'args': c['args'], 'cwd': c['cwd'].replace(sds or '', '<sds>'), 'env': c['env'], 'timeout': c['timeout']} for c in calls]})
    if errs:
        res.violation(case, errs, {'file': text, 'events': [EVENTS[e] for e in hist]})
    return res
