"""C14 — a text has one value however it is consumed (DESIGN §3 C14).

Object under exploration: one StringSource built through the public factories / parsers
(kind x optional freeze of the model x transformer chain), driven by every short sequence of access events
(freeze, as_str, as_lines fully / partially, as_file, write_to, may_depend...) for several mem_buff sizes.
Oracle: one reference text T (mc/ref/text.py applied to the input); every observation equals T and the
division into lines is T split at "\\n" only.   S-CLI slice: verdicts of M, identity-wrapped M, ( M && M ), and of
`equals` between all pairs of source kinds.
"""
import io
import os
import itertools

from mc import world, procseam, cli, lib, stubprog
from mc.ref import text as R
from mc.result import Result
from mc import kf

PROPERTY = 'C14'
LEVEL = 'model_checking'
CASE_GUARD_S = {'quick': 300, 'thorough': 3600}  # a case is a composite (a block of expressions x all texts, ...)
CHUNK = 4
RULE = ('source kind {constant string, here-document, file, program output, output of a program that is not repeatable (frozen first)} x model frozen before transformation {no, yes} x transformer chain '
        '(none, identity, char-case, filter constant true, replace, run cat, strip variants, filter -line-nums 2:, pairs of these) x every sequence of '
        '<= 2 (thorough 3) access events from {freeze, as_str, as_lines fully, as_lines first line only, as_lines in two steps, as_file, write_to} x '
        'mem_buff_size in {1, 2, |T|, |T|+1, 8192} x texts of length <= 2 (thorough 3) over {a, newline, CR, FF, NEL, LS} plus CR LF texts, texts around '
        'the buffer size and without final newline; chains include replacements that insert / remove line breaks followed by line-oriented stages; '
        'CLI: `equals` between texts that DIFFER (12 lengths x 5 ways of differing, files with identical size and times) for every pair of source kinds; concatenated sources: every cut of a text (length <= 2, thorough 3, over {a, newline}, plus CR LF / FF samples) into 2..4 parts x 13 patterns of part kinds '
        '{constant, file, program output} x frozen first {no, yes} x event sequences x buffer {1, |T|+1}; states = (representation class, frozen, may-depend) after each event')
ASSUMPTIONS = [
    'reference text: the input transformed by the C05 reference evaluator; lines are the maximal pieces ending in "\\n"',
    'files are written and read back by the harness without newline translation',
    'program output is produced by a virtual child writing to the handle exactly gives it',
]

SIGMA = 'a\n\r\f\x85 '
EVENTS = ('freeze', 'as_str', 'lines', 'lines1', 'lines2step', 'as_file', 'write_to')
KINDS = ('const', 'here', 'file', 'program', 'program-once')

CHAINS = [
    (), (('identity',),), (('case', 'upper'),), (('filter', ('const', True)),), (('replace', 'x', 'y', False, None),),
    (('run-cat',),), (('strip', 'new-lines'),), (('strip', None),), (('line-nums', [('l', 2)]),), (('replace', 'a', 'b', True, None),),
    (('line-nums', [('p', 1), ('p', -1)]),), (('grep', False, ''),),
    (('identity',), ('strip', 'new-lines')), (('run-cat',), ('strip', 'space')), (('filter', ('const', True)), ('line-nums', [('l', 2)])),
    (('case', 'upper'), ('identity',)), (('run-cat',), ('run-cat',)), (('filter', ('const', True)), ('filter', ('const', True))),
    (('run-cat',), ('line-nums', [('f', 2, 3)])), (('replace', 'x', 'y', False, None), ('strip', None)),
    # replacements that insert or remove line breaks: the result must be re-divided into lines
    (('replace', 'a', '\\n', False, None),), (('replace', 'a', 'b\\n\\nc', False, None),), (('replace', 'a', '\\n', True, None),), (('replace', '\\n', '', False, None),),
    (('replace', 'a', '\\n', False, None), ('line-nums', [('l', 2)])), (('replace', ' ', '\\n', True, None), ('replace', '^', '>', True, None)),
    (('replace', 'a', '\\nb', False, None), ('filter', ('const', True))), (('replace', '\\n', 'a', False, None), ('strip', 'new-lines')),
]
NL_CHAINS = tuple(range(20, 28))


def texts(tier):
    n = 2 if tier == 'quick' else 3
    ts = [''.join(t) for k in range(0, n + 1) for t in itertools.product(SIGMA, repeat=k)]
    ts += ['a\r\nb\r\n', 'a\r\nb', 'a\nb\nc\nd', 'a\nb\nc\nd\n', 'a\fb\nc', 'ab\n' * 5, ' a \n\n', '\n\n\n', 'a\rb\n', 'a\x0bb\x1cc\x1dd\x1ee\n',
           'line1\nline2\nline3\nline4\nline5', '\u2028\na', '\u00e9a\n', '\u00e9\n\u00e9', 'a\u00e9\u20ac\U0001f600\nb']
    return ts


BIG = ['\u00e9\n' * 5000, '\u00e9' * 9000 + '\ntail\n', 'x' * 8191 + '\n', 'x' * 8192 + '\n', ('y' * 99 + '\n') * 82, ('y' * 99 + '\n') * 300, 'z' * 20000,
       # around 2**16 (a read size that has nothing to do with the memory buffer)
       'w' * 65535, 'w' * 65536, 'w' * 65537, ('v' * 63 + '\n') * 1030 + 'THE END', ('u' * 127 + '\n') * 1536]


def event_seqs(tier):
    n = 2 if tier == 'quick' else 3
    out = []
    for k in range(1, n + 1):
        out += list(itertools.product(EVENTS, repeat=k))
    if tier == 'quick':
        # the length-3 sequences that start by freezing
        out += [('freeze',) + s for s in itertools.product(EVENTS[1:], repeat=2)]
    # the two line-by-line consumers inside exactly that re-shape the lines (`every` / `any line`; `filter`): alone, after freezing, before another access
    for v in VIEW_EVENTS:
        out += [(v,), ('freeze', v), (v, 'as_str'), ('lines1', v), (v, 'lines')]
    return out


VIEW_EVENTS = ('lm-lines', 'filter-lines')
_T = {}


def prepare(tier):
    cli.main_program()
    stubprog.main_program()
    procseam.install()
    lib.parsers('text-transformer')
    from exactly_lib.impls.types.string_source import parse as _p  # noqa
    _T['texts'] = texts(tier)
    _T['seqs'] = event_seqs(tier)
    _T['tier'] = tier


def cases(tier):
    nt = len(texts(tier))
    for bi in range(len(BIG)):
        for kind in KINDS:
            for ci in (0, 1, 3, 5, 8, 12, 14):
                yield ('big', kind, bi, ci)
    for kind in KINDS:
        for fm in (False, True):
            for ci in range(len(CHAINS)):
                if tier == 'quick' and ci >= 12 and ci not in (13, 14, 18, 20, 22, 23, 24, 25):
                    continue
                for i in range(0, nt, 12):
                    yield ('src', kind, fm, ci, i, min(i + 12, nt))
    for i in range(0, nt, 6):
        yield ('cli', i, min(i + 6, nt))
    # texts of MANY short lines (the bounded readers behind `equals` count characters line by line): identical texts from different kinds of source
    for n in (99, 101, 103, 150, 400, 1200):
        yield ('cli-one', ''.join('l%d\n' % (i % 7) for i in range(n)))
        yield ('cli-one', 'x\n' * n + 'last')
    # unequal texts that are easy to take for equal: same length / same file times / one a prefix of the other, lengths around the
    # read-ahead of `equals` (100) and the memory buffer
    for n in NEQ_SIZES:
        yield ('cli-neq', n)
    # concatenations (type_val_prims/string_source/impls/concat.py): every split of a text into 2..4 parts of every pattern of part kinds
    ct = cat_texts(tier)
    for pat in CAT_PATTERNS:
        if tier == 'quick' and pat in ('fc', 'pcc', 'ffp', 'cfcf'):
            continue
        for ti in range(len(ct)):
            for ci in (CAT_CHAINS if tier != 'quick' else CAT_CHAINS[:1] + CAT_CHAINS[2:3]):
                yield ('cat', pat, ti, ci)


CAT_PATTERNS = ('cc', 'cf', 'fc', 'cp', 'pc', 'ccc', 'cfc', 'fcf', 'cpc', 'pcc', 'ffp', 'cccc', 'cfcf')
CAT_CHAINS = (0, 1, 8, 5)


def cat_texts(tier):
    n = 2 if tier == 'quick' else 3
    ts = [''.join(t) for k in range(0, n + 1) for t in itertools.product('a\n', repeat=k)]
    ts += ['ab\ncd', 'a\n\nb\n', 'abc', 'a\r\nb', 'a\fb\n'] + (['ab\ncd\nef\n', '\n\n\n\n', 'abcd'] if tier != 'quick' else [])
    return ts


def compositions(text, k):
    """Every way to cut `text` into k consecutive (possibly empty) parts."""
    n = len(text)
    for cuts in itertools.combinations_with_replacement(range(n + 1), k - 1):
        b = (0,) + cuts + (n,)
        yield tuple(text[b[i]:b[i + 1]] for i in range(k))


def chain_src(chain):
    parts = []
    for t in chain:
        parts.append('( run % cat )' if t[0] == 'run-cat' else R.render_tt(t))
    return ' | '.join(parts)


def chain_ref(chain, t):
    for tt in chain:
        if tt[0] != 'run-cat':
            t = R.ev_tt(tt, t)
    return t


def _cr_candidates(chain, text, parts=None):
    """Defect model of KF-C14-CR: universal-newline translation may happen wherever the text passes through a file,
    i.e. before / after any stage of the chain.  All texts that can result."""
    if '\r' not in text:
        return set()
    cands = {text, kf.universal_newlines(text)}
    if parts is not None:
        # a concatenation: each part may pass through a file on its own (so a CR LF cut between two parts becomes LF LF)
        for choice in itertools.product((False, True), repeat=len(parts)):
            u = ''.join(kf.universal_newlines(pt) if c else pt for c, pt in zip(choice, parts))
            cands.add(u)
            cands.add(kf.universal_newlines(u))
    for tt in chain:
        nxt = set()
        for c in cands:
            v = c if tt[0] == 'run-cat' else R.ev_tt(tt, c)
            nxt.add(v)
            nxt.add(kf.universal_newlines(v))
        cands = nxt
    return cands


def buffers_for(T):
    n = len(T)
    return sorted({1, 2, max(1, n), n + 1, 8192})


def build_source(E, kind, text, counter, idx=0):
    """A fresh StringSource of the given kind holding `text`, or None if the kind cannot express it."""
    from exactly_lib.section_document.parse_source import ParseSource
    from exactly_lib.impls.types.string_source import parse as ssp
    if isinstance(kind, (tuple, list)):
        # ('cat', pattern, parts): the concatenation of the parts, part i of kind pattern[i]
        from exactly_lib.type_val_prims.string_source.impls import concat
        _, pat, parts = kind
        srcs = [build_source(E, {'c': 'const', 'f': 'file', 'p': 'program'}[pk], pt, counter, idx=i) for i, (pk, pt) in enumerate(zip(pat, parts))]
        return concat.string_source(srcs, E.mem_buff_size)
    if kind == 'const':
        return E.ssf.of_const_str(text)
    if kind == 'here':
        if not (text.endswith('\n') or text == '') or 'EOF' in text or '@[' in text:
            return None
        if any(l in ('EOF\n',) for l in R.lines(text)):
            return None
        src = '<<EOF\n' + text + 'EOF\n'
    elif kind == 'file':
        name = 'src%d-%d.txt' % (counter[0] % 4, idx)
        E.write_act(name, text)
        src = '-contents-of -rel-act ' + name
    elif kind == 'program-once':
        # a generator that is not repeatable: its first run prints the text, every later run something else.  Once the source is frozen,
        # every way of consuming it must give the one cached value (only sequences that freeze first are explored with this kind)
        runs = [0]

        def gen(rec, runs=runs, text=text):
            runs[0] += 1
            return {'out': text if runs[0] == 1 else 'REGENERATED (run %d)\n' % runs[0]}

        procseam.SEAM.script['progonce'] = gen
        src = '-stdout-from % progonce'
    else:
        procseam.SEAM.script['prog%d' % idx] = {'out': text}
        src = '-stdout-from %% prog%d' % idx
    parser = _T.get('ssparser')
    if parser is None:
        parser = _T['ssparser'] = ssp.default_parser_for(phase_is_after_act=True)
    sdv = parser.parse(ParseSource(src))
    return sdv.resolve(E.empty_symbols).value_of_any_dependency(E.tcds).primitive(E.env)


def observe(src, ev):
    """-> (observation kind, text or line list)"""
    if ev == 'freeze':
        src.freeze()
        return None
    c = src.contents()
    if ev == 'as_str':
        return ('str', c.as_str)
    if ev == 'lines':
        with c.as_lines as it:
            return ('lines', list(it))
    if ev == 'lines1':
        with c.as_lines as it:
            for l in it:
                return ('first', l)
        return ('first', None)
    if ev == 'lines2step':
        got = []
        with c.as_lines as it:
            for l in it:
                got.append(l)
                break
            for l in it:
                got.append(l)
        return ('lines', got)
    if ev in VIEW_EVENTS:
        from exactly_lib.impls.types.line_matcher import model_construction as mc_
        with c.as_lines as it:
            if ev == 'lm-lines':
                return ('lm-lines', [(n, l) for n, l in mc_.model_iter_from_file_line_iter(it)])
            return ('filter-lines', [(orig, (m[0], m[1])) for orig, m in mc_.original_and_model_iter_from_file_line_iter(it)])
    if ev == 'as_file':
        p = c.as_file
        with open(p, newline='', encoding='utf-8') as f:
            return ('str', f.read())
    if ev == 'write_to':
        # a real file, as every caller inside exactly passes (a program-backed source hands it to the child process, which needs a descriptor)
        p = str(world.get().ext / 'write-to-target.txt')
        with open(p, 'w+', newline='', encoding='utf-8') as out:
            c.write_to(out)
            out.flush()
            out.seek(0)
            return ('str', out.read())
    raise ValueError(ev)


def check_obs(ob, T, Tlines):
    if ob is None:
        return None
    k, v = ob
    if k == 'str':
        if v != T:
            return 'gives %r' % (v[:80],)
    elif k == 'lines':
        if v != Tlines:
            return 'gives lines %r' % (v[:8],)
    elif k in VIEW_EVENTS:
        body = lambda l: l[:-1] if l.endswith('\n') else l
        want = [(i, body(l)) for i, l in enumerate(Tlines, 1)] if k == 'lm-lines' else [(l, (i, body(l))) for i, l in enumerate(Tlines, 1)]
        if v != want:
            return 'as seen by %s: %r, the text has the lines %r' % ('every / any line' if k == 'lm-lines' else 'filter', v[:6], Tlines[:6])
    elif k == 'first':
        exp = Tlines[0] if Tlines else None
        if v != exp:
            return 'gives first line %r, expected %r' % (v, exp)
    return None


def run(case) -> Result:
    res = Result()
    k = case[0]
    if k == 'src':
        _, kind, fm, ci, a, b = case
        for t in _T['texts'][a:b]:
            _explore(res, kind, fm, ci, t, _T['seqs'], None)
    elif k == 'one':
        _, kind, fm, ci, t, seq, buf = case
        if isinstance(kind, list):
            kind = (kind[0], kind[1], tuple(kind[2]))
        _explore(res, kind, fm, ci, t, [tuple(seq)], buf, bufs=(buf,))
    elif k == 'big':
        _, kind, bi, ci = case
        t = BIG[bi]
        seqs = [s for s in _T['seqs'] if len(s) == 1 or (len(s) == 2 and s[0] in ('freeze', 'lines1', 'as_file'))]
        for fm in (False, True):
            _explore(res, kind, fm, ci, t, seqs, None, bufs=(8191, 8192, 8193, 100, len(t), len(t) + 1))
    elif k == 'cat':
        _, pat, ti, ci = case
        t = cat_texts(_T['tier'])[ti]
        seqs = _T['seqs'] if _T['tier'] != 'quick' else [q for q in _T['seqs'] if len(q) < 3]
        for parts in compositions(t, len(pat)):
            for fm in (False, True):
                _explore(res, ('cat', pat, parts), fm, ci, t, seqs, None, bufs=sorted({1, len(t) + 1}))
    elif k == 'cli':
        for t in _T['texts'][case[1]:case[2]]:
            _cli(res, t, case)
    elif k == 'cli-one':
        _cli(res, case[1], case)
    elif k == 'cli-neq':
        _cli_neq(res, case)
    return res


def _explore(res, kind, fm, ci, text, seqs, only_buf, bufs=None):
    chain = CHAINS[ci]
    T = chain_ref(chain, text)
    Tlines = R.lines(T)
    seam = procseam.SEAM
    seam.script['cat'] = {'stdin_to_out': True}
    csrc = chain_src(chain)
    counter = [0]
    for buf in (bufs or buffers_for(T)):
        if only_buf is not None and buf != only_buf:
            continue
        E = lib.env(buf)
        tr = None
        if chain:
            key = ('tr', buf, ci)
            tr = _T.get(key)
            if tr is None or _T.get(('trpid', buf, ci)) != id(E):
                tr = E.primitive(lib.parsers('text-transformer').full, csrc)
                _T[key] = tr
                _T[('trpid', buf, ci)] = id(E)
        for seq in seqs:
            if kind == 'program-once' and not fm and seq[0] != 'freeze':
                continue
            counter[0] += 1
            E.new_space()
            try:
                src = build_source(E, kind, text, counter)
            except Exception as ex:  # noqa
                if kind == 'here' and any(c in text for c in '\r\f\x85\u2028'):
                    # a here-document line made only of such characters is not accepted by the parser
                    # (that is string syntax, C09 / C18 — not consumption of a text); this kind cannot express the text
                    res.stats['here-document cannot express text'] += 1
                    return
                res.violation(('one', kind, fm, ci, text, seq, buf), ['cannot build %s source for %r: %s: %s' % (kind, text, type(ex).__name__, ex)])
                return
            if src is None:
                return
            one = ('one', kind, fm, ci, text, seq, buf)
            res.n += 1
            bad = []
            badobs = []
            try:
                if fm:
                    src.freeze()
                if tr is not None:
                    src = tr.transform(src)
                prev = ('init', False)
                frozen = False
                for ev in seq:
                    ob = observe(src, ev)
                    if ev == 'freeze':
                        frozen = True
                    msg = check_obs(ob, T, Tlines)
                    if msg:
                        bad.append('%s %s; the text is %r (%d lines)' % (ev, msg, T[:80], len(Tlines)))
                        badobs.append(ob)
                    st = (type(src.contents()).__name__, frozen)
                    res.states.add(st)
                    res.trans.add((prev, ev, st))
                    prev = st
            except Exception as ex:  # noqa
                bad.append('%s: %s during %s' % (type(ex).__name__, ex, seq))
            if bad:
                hit = kf.classify_c14(text, _cr_candidates(chain, text, kind[2] if isinstance(kind, (tuple, list)) else None), badobs, len(bad))
                if hit:
                    res.kf[hit] += 1
                else:
                    res.violation(one, ['%s source%s%s, mem_buff_size %d, events %s: %s' % (
                        kind, ' (model frozen)' if fm else '', (' -transformed-by ' + csrc) if chain else '', buf, list(seq), bad[0])] + bad[1:3])
            else:
                res.validated += 1
            res.outcomes[(len(Tlines) if len(Tlines) < 4 else 'many', T == text)] += 1
    if any(c in text for c in '\r\f\x85 ') or text.count('\n') != len(Tlines):
        res.nontrivial += 1
    if not res.samples and chain and len(text) > 1:
        res.samples.append({'kind': kind, 'model_frozen_first': fm, 'chain': csrc, 'text': text, 'events': list(seqs[-1]), 'reference_text': T})


NEQ_SIZES = (2, 50, 99, 100, 101, 102, 162, 200, 1000, 8191, 8192, 8193)


def _cli_neq(res, case):
    """`equals` must be false for every pair of DIFFERENT texts whatever the kinds of source: the longer text = the shorter plus a line / plus one
    character; same length with one character changed (files get identical size AND identical modification time)."""
    _, n = case
    w = world.get()
    seam = procseam.SEAM
    T = (('abcdefghi\n' * (n // 10 + 1))[:n - 1]) + '\n'
    variants = {'plus-line': T + 'more\n', 'plus-char': T + 'z', 'changed-last': T[:-2] + 'X\n' if n > 2 else 'X\n', 'changed-first': 'X' + T[1:],
                'minus-last-newline': T[:-1]}
    for buf in (None, 64):
        mp = stubprog.main_program(buf)
        for vname, V in variants.items():
            if V == T:
                continue
            w.reset()
            seam.reset()
            seam.script['cat'] = {'stdin_to_out': True}
            asserts = []
            for (A, B, an, bn) in ((T, V, 't', 'v'), (V, T, 'v', 't')):
                # actual A from: file in act / action output ; expected B from: file in home, file in act, program output, here-document (if expressible)
                seam.script['atc'] = {'out': T}  # the action's stdout is T; stdout assertions therefore use A == T only
                seam.script['prog-' + bn] = {'out': B}
                exp = ['-contents-of -rel-home %s.txt' % bn, '-contents-of -rel-act %s.txt' % bn, '-stdout-from %% prog-%s' % bn,
                       '-contents-of -rel-act %s.txt -transformed-by identity' % bn]
                if B.endswith('\n'):
                    exp.append('<<EOF\n' + B + 'EOF')
                for e in exp:
                    for form in ('! equals %s', '-transformed-by identity ! equals %s', '-transformed-by ( run %% cat ) ! equals %s'):
                        asserts.append('contents %s.txt : %s' % (an, form % e))
                        if A is T:
                            asserts.append('stdout %s' % (form % e))
                    if not e.startswith('<<'):
                        asserts.append('contents %s.txt : ( ! equals %s\n && ! equals %s\n )' % (an, e, e))
            for name, txt in (('t.txt', T), ('v.txt', V)):
                p = w.write(name, txt)
                os.utime(p, (1000000000, 1000000000))
            text = '\n'.join(['[conf]', 'act-home = .', '[setup]', 'copy t.txt', 'copy v.txt', '[act]', '% atc', '[assert]'] + asserts) + '\n'
            o = cli.run_case(text, mp=mp)
            res.n += len(asserts)
            res.nontrivial += 1
            res.outcomes[('cli-neq', o.ident)] += 1
            if o.rc != 0 or o.out != 'PASS\n' or o.exc:
                errl = cli.stderr_lines(o.err)
                res.violation(case, ['texts of length %d that differ (%s), mem_buff_size %s: every `! equals` must pass whatever the kinds of source; got rc=%s %s' % (
                    n, vname, buf, o.rc, o.out.strip()), ' / '.join(errl[:7])[:600]], {'file': text[:1500]})
    return res


def _cli(res, t, case):
    """Verdicts that must agree: M / -transformed-by identity M / ( M && M ); equals between every pair of source kinds."""
    w = world.get()
    seam = procseam.SEAM
    if '\r' in t:
        # CR: the verdicts depend on where universal-newline translation happens (known finding KF-C14-CR, decided at S-LIB); not required here
        res.stats['cli slice: texts with CR skipped'] += 1
        return
    Tl = R.lines(t)
    n = len(Tl)
    last = (Tl[-1].rstrip('\n') if Tl else '')
    can_quote = all(c not in last for c in '\'\n') and last != ''
    for buf in ((None, 1) if _T['tier'] == 'quick' else (None, 1, 3, 7)):
        mp = stubprog.main_program(buf)
        w.reset()
        seam.reset()
        seam.script['atc'] = {'out': t}
        seam.script['prog'] = {'out': t}
        seam.script['cat'] = {'stdin_to_out': True}
        w.write('f.txt', t)
        ms = ['num-lines == %d' % n, '! num-lines == %d' % (n + 1)]
        if n:
            ms.append('any line : line-num == %d' % n)
            ms.append('! any line : line-num == %d' % (n + 1))
        asserts = []
        for m in ms:
            for form in ('%s', '-transformed-by identity ( %s )', '( %s && %s )', '-transformed-by ( run % cat ) ( %s )'):
                e = form.replace('%s', m)
                asserts.append('stdout %s' % e)
                asserts.append('contents f.txt : %s' % e)
        srcs = ['-contents-of -rel-act f.txt', '-stdout-from % prog', '-contents-of -rel-act f.txt -transformed-by identity',
                '-contents-of -rel-act f.txt -transformed-by ( run % cat )']
        if t.endswith('\n') and 'EOF' not in t and '@[' not in t and not any(c in t for c in '\r\f\x85\u2028'):
            srcs.append('<<EOF\n' + t + 'EOF')
        for s in srcs:
            asserts.append('stdout equals ' + s)
            asserts.append('contents f.txt : equals ' + s)
            asserts.append('stdout ( equals %s\n && equals %s\n )' % (s, s) if not s.startswith('<<') else 'stdout equals ' + s)
        text = '\n'.join(['[conf]', 'act-home = .', '[setup]', 'copy f.txt', '[act]', '% atc', '[assert]'] + asserts) + '\n'
        o = cli.run_case(text, mp=mp)
        res.n += len(asserts)
        res.outcomes[('cli', o.ident)] += 1
        if o.rc != 0 or o.out != 'PASS\n' or o.exc:
            errl = cli.stderr_lines(o.err)
            msg = ['CLI slice, text %r, mem_buff_size %s: all %d assertions must pass (same text, different consumption); got rc=%s %s'
                   % (t, buf, len(asserts), o.rc, o.out.strip()), ' / '.join(errl[:7])]
            res.violation(('cli-one', t), msg, {'file': text[:3000]})
    res.nontrivial += 1
