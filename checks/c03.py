"""C03 — validation precedes execution: an invalid test case has no effects (DESIGN §3 C03).

Seam S-CLI + S-PROC.  Every effect of a case outside the sandbox can only happen through a process, so
"no effect" is decided by: call log empty, sandbox root empty, home tree unchanged, cwd/environ unchanged.
"""
import itertools

from mc import world, procseam, cli
from mc.result import Result

PROPERTY = 'C03'
LEVEL = 'exploration'
CHUNK = 100
RULE = ('cases = effectful base case (variant: which phases are present / how many instructions) x insertion point (every phase x every '
        'index, including after the last line of [cleanup]) x defect (syntax, unknown instruction, undefined symbol, symbol defined '
        'later in execution order, duplicate definition, wrong symbol type, illegal relativity via 1 and 2 symbols, missing home file, '
        'bad integer, bad regex, act-phase syntax, conf-phase defects) x command (run, --keep, --act, symbol, symbol NAME, symbol NAME --ref); '
        'non-trivial = a defect is present (expected outcome differs from PASS) ; the defect-free base cases are run too and must show '
        'all their effects (the effect log is not vacuous); distinct by construction')
ASSUMPTIONS = [
    'all processes are virtual children at the subprocess.call seam; an effect outside the sandbox needs a process',
    'only defects that the manual places before execution are used (files relative to the sandbox are validated later by design)',
]

COMMANDS = ('run', 'keep', 'act', 'symbol', 'symbol-name', 'symbol-ref')
ERR65 = ('SYNTAX_ERROR', 'FILE_ACCESS_ERROR', 'VALIDATION_ERROR')

# multi-phase defects: (name, lines, expected identifiers)
DEFECTS = [
    ('syntax-bad-type', ['def nosuchtype X = 1'], ('SYNTAX_ERROR',)),
    ('syntax-unterminated-quote', ["run % mark 'unterminated"], ('SYNTAX_ERROR',)),
    ('syntax-missing-arg', ['def string NOVALUE'], ('SYNTAX_ERROR',)),
    ('syntax-superfluous', ['cd d1 superfluous'], ('SYNTAX_ERROR',)),
    ('unknown-instruction', ['no-such-instruction a b'], ('SYNTAX_ERROR',)),
    ('undefined-symbol', ['run % mark @[UNDEFINED]@'], ('VALIDATION_ERROR',)),
    ('undefined-symbol-in-string', ['def string U = "a@[UNDEFINED]@b"'], ('VALIDATION_ERROR',)),
    ('defined-later', ['run % mark @[LATER]@'], ('VALIDATION_ERROR',)),
    # references in the SUFFIX of a path whose first part is a path symbol (both ways of writing it), in a definition that is never used
    ('undefined-symbol-in-suffix-after-path-symbol', ['def path PB1 = -rel-act b', 'def path PU1 = @[PB1]@/@[UNDEFINED]@.txt'], ('VALIDATION_ERROR',)),
    ('undefined-symbol-in-suffix-of-rel-symbol', ['def path PB2 = -rel-act b', 'def path PU2 = -rel PB2 x-@[UNDEFINED]@'], ('VALIDATION_ERROR',)),
    ('defined-later-in-suffix-after-path-symbol', ['def path PB3 = -rel-tmp b', "file @[PB3]@/@[LATER]@.txt = 'x'"], ('VALIDATION_ERROR',)),
    ('defined-later-in-suffix-of-rel-symbol', ['def path PB4 = -rel-tmp b', "file -rel PB4 @[LATER]@.txt = 'x'"], ('VALIDATION_ERROR',)),
    ('list-in-suffix-after-path-symbol', ['def path PB5 = -rel-tmp b', 'def list LS5 = a b', "file @[PB5]@/@[LS5]@ = 'x'"], ('VALIDATION_ERROR',)),
    ('list-in-suffix-of-rel-symbol', ['def path PB6 = -rel-tmp b', 'def list LS6 = a b', 'dir -rel PB6 @[LS6]@'], ('VALIDATION_ERROR',)),
    ('duplicate-definition', ["def string LATER = 'again'"], ('VALIDATION_ERROR',)),
    ('duplicate-builtin', ["def string EXACTLY_ACT = 'x'"], ('VALIDATION_ERROR',)),
    # a definition that refers to the symbol it defines (the symbol is not defined "before" its own value)
    ('self-reference-string', ['def string SELF1 = "x @[SELF1]@"'], ('VALIDATION_ERROR',)),
    ('self-reference-list', ['def list SELF2 = a @[SELF2]@'], ('VALIDATION_ERROR',)),
    ('self-reference-matcher', ['def line-matcher SELF3 = ! SELF3'], ('VALIDATION_ERROR',)),
    ('self-reference-program', ['def program SELF4 = @ SELF4 arg'], ('VALIDATION_ERROR',)),
    ('self-reference-path', ['def path SELF5 = @[SELF5]@/sub'], ('VALIDATION_ERROR',)),
    ('wrong-type-rel', ["def string STR = 'v'", "file -rel STR out.txt = 'x'"], ('VALIDATION_ERROR',)),
    ('wrong-type-matcher', ["def string STR2 = 'v'", "def text-matcher TM = STR2 && is-empty"], ('VALIDATION_ERROR',)),
    ('wrong-type-indirect-sibling', ['def string A0 = 7', 'def list L0 = x y', 'def string SIB = @[A0]@@[L0]@', 'timeout = @[SIB]@'], ('VALIDATION_ERROR',)),
    ('wrong-type-indirect-sibling-path', ['def string A1 = a', 'def path P0 = -rel-act p', 'def string SIB2 = "@[A1]@-@[A1]@@[P0]@"', "file -rel-act f-@[SIB2]@.txt = 'x'"], ('VALIDATION_ERROR',)),
    ('wrong-type-indirect-2-levels', ['def list L1 = x', 'def string M1 = "@[L1]@"', 'def string M2 = "a@[M1]@"', 'run % @[M2]@'], ('VALIDATION_ERROR',)),
    ('illegal-relativity-1', ['def path P1 = -rel-home x', "file -rel P1 z.txt = 'x'"], ('VALIDATION_ERROR',)),
    ('illegal-relativity-2', ['def path Q1 = -rel-result x', 'def path Q2 = -rel Q1 y', "file @[Q2]@/z = 'x'"], ('VALIDATION_ERROR',)),
    ('missing-home-file-contents', ['file g.txt = -contents-of -rel-home no-such-file'], ('VALIDATION_ERROR',)),
    ('missing-home-file-arg', ['run % mark -existing-file -rel-home no-such-file'], ('VALIDATION_ERROR',)),
    ('missing-home-program', ['run -rel-home no-such-program'], ('VALIDATION_ERROR',)),
    # arguments APPENDED to a program symbol are validated like arguments written in its definition
    ('missing-home-file-arg-appended-to-program-symbol', ['def program PSY1 = % mark p', 'run @ PSY1 -existing-file -rel-home no-such-file'], ('VALIDATION_ERROR',)),
    ('missing-home-file-arg-appended-twice-removed', ['def program PSY2 = % mark p', 'def program PSY3 = @ PSY2 a', 'run @ PSY3 -existing-path -rel-home no-such-file'], ('VALIDATION_ERROR',)),
    ('missing-home-file-arg-in-program-symbol', ['def program PSY4 = % mark p -existing-dir -rel-home no-such-dir', 'run @ PSY4'], ('VALIDATION_ERROR',)),
    ('missing-file-rel-here-symbol', ['def path HERE = -rel-here .', 'file g.txt = -contents-of -rel HERE no-such-file'], ('VALIDATION_ERROR',)),
    ('missing-file-rel-here-symbol-2', ['def path HERE1 = -rel-here hd', 'def path HERE2 = @[HERE1]@/no-such-file',
                                        'run % mark -existing-file @[HERE2]@'], ('VALIDATION_ERROR',)),
    ('missing-file-absolute', ['file g.txt = -contents-of /no-such-dir-at-root-of-fs/no-such-file'], ('VALIDATION_ERROR',)),
    ('missing-file-act-home', ['file g.txt = -contents-of -rel-act-home no-such-file'], ('VALIDATION_ERROR',)),
    ('bad-integer', ['timeout = abc'], ('VALIDATION_ERROR', 'SYNTAX_ERROR')),
    ('bad-integer-float', ['timeout = 1.5'], ('VALIDATION_ERROR', 'SYNTAX_ERROR')),
    ('bad-regex', ["file g.txt = -contents-of -rel-home data.txt -transformed-by replace '(' x"], ('VALIDATION_ERROR', 'SYNTAX_ERROR')),
    ('bad-regex-replace-at', ["file g.txt = -contents-of -rel-home data.txt -transformed-by replace -at line-num == 1 '(' x"], ('VALIDATION_ERROR', 'SYNTAX_ERROR')),
    ('bad-regex-replace-at-preserve', ["file g.txt = -contents-of -rel-home data.txt -transformed-by replace -at contents is-empty -preserve-new-lines 'b[' x"],
     ('VALIDATION_ERROR', 'SYNTAX_ERROR')),
    ('bad-regex-in-at-selector', ["file g.txt = -contents-of -rel-home data.txt -transformed-by replace -at contents matches '*' a x"], ('VALIDATION_ERROR', 'SYNTAX_ERROR')),
    ('bad-regex-matcher', ["file g.txt = -contents-of -rel-home data.txt -transformed-by filter contents matches '*'"],
     ('VALIDATION_ERROR', 'SYNTAX_ERROR')),
]
ASSERT_ONLY = [
    ('assert-bad-integer', ['exit-code == abc'], ('VALIDATION_ERROR', 'SYNTAX_ERROR')),
    ('assert-bad-matcher', ['exists f1.txt : type nosuchtype'], ('SYNTAX_ERROR',)),
    ('assert-missing-home-file', ['contents f1.txt : equals -contents-of -rel-home no-such-file'], ('VALIDATION_ERROR',)),
]
SETUP_ONLY = [
    ('setup-copy-missing', ['copy no-such-home-file'], ('VALIDATION_ERROR',)),
    ('setup-stdin-missing', ['stdin = -contents-of -rel-home no-such-file'], ('VALIDATION_ERROR',)),
    # the result directory is not a legal relativity of a file to read BEFORE the act phase (it is afterwards)
    ('setup-src-rel-result-option', ['copy -rel-result stdout x-copy'], ('SYNTAX_ERROR',)),
    ('setup-src-rel-result-symbol', ['def path RR = -rel-result stdout', 'copy @[RR]@ x-copy2'], ('VALIDATION_ERROR',)),
    ('setup-src-rel-result-symbol-rel', ['def path RR2 = -rel-result .', 'file g2.txt = -contents-of -rel RR2 stdout'], ('VALIDATION_ERROR',)),
    ('setup-stdin-rel-result-symbol', ['def path RR3 = -rel-result .', 'def path RR4 = @[RR3]@/stdout', 'stdin = -contents-of @[RR4]@'], ('VALIDATION_ERROR',)),
]
CONF_DEFECTS = [
    ('conf-bad-status', ['status = NOSUCH'], ('SYNTAX_ERROR',)),
    ('conf-unknown-instruction', ['no-such-conf-instruction'], ('SYNTAX_ERROR',)),
    ('conf-bad-actor', ['actor = -no-such-actor'], ('SYNTAX_ERROR',)),
    ('conf-setup-instruction', ['env X = y'], ('SYNTAX_ERROR',)),
]
ACT_DEFECTS = [
    ('act-syntax', ["% mark 'unterminated"], ('SYNTAX_ERROR',)),
    ('act-two-commands', ['% mark a', '% mark b'], ('SYNTAX_ERROR',)),
    ('act-undefined-symbol', ['% mark @[UNDEFINED]@'], ('VALIDATION_ERROR',)),
    ('act-defined-later', ['% mark @[LATER]@'], ('VALIDATION_ERROR',)),
    ('act-missing-program', ['no-such-program-in-act-home'], ('VALIDATION_ERROR',)),
    # defects in the stdin / transformation parts of the action to check (validated like the command itself)
    # the file-interpreter actor (configured by a line the defect adds to [conf]): defects in the ARGUMENTS that follow the source file
    ('act-file-actor-undefined-symbol-in-argument', ['in-act-home.src a @[UNDEFINED]@'], ('VALIDATION_ERROR',), ['actor = file % interp']),
    ('act-file-actor-defined-later-in-argument', ['in-act-home.src @[LATER]@ b'], ('VALIDATION_ERROR',), ['actor = file % interp']),
    ('act-file-actor-missing-file-argument', ['in-act-home.src -existing-file -rel-home no-such-file'], ('VALIDATION_ERROR',), ['actor = file % interp']),
    ('act-file-actor-missing-source-file', ['no-such.src a'], ('VALIDATION_ERROR',), ['actor = file % interp']),
    ('act-stdin-missing-home-file', ['% mark a', '-stdin -contents-of -rel-home no-such-file'], ('VALIDATION_ERROR',)),
    ('act-transformer-bad-regex', ['% mark a', "-transformed-by replace '(' x"], ('VALIDATION_ERROR', 'SYNTAX_ERROR')),
    ('act-transformer-bad-integer', ['% mark a', '-transformed-by filter -line-nums notAnInt'], ('VALIDATION_ERROR', 'SYNTAX_ERROR')),
    ('act-stdin-and-transformer-missing-file', ['% mark a', '-stdin abc', '-transformed-by run -rel-home no-such-program'], ('VALIDATION_ERROR',)),
]
ALL_DEFECTS = {d[0]: d for d in DEFECTS + ASSERT_ONLY + SETUP_ONLY + CONF_DEFECTS + ACT_DEFECTS}

# base-case variants: phase -> instruction lines.  Every instruction has an observable effect.
FULL = {
    'conf': ['act-home = .'],
    'setup': ["def string S = 'val'", "file f1.txt = 'x'", 'run % mark s1', 'dir d1', '$ mark s2', 'env X = y', 'cd d1'],
    'act': ['% mark act @[S]@'],
    'before-assert': ['run % mark b1', "def string B = 'b'"],
    'assert': ['run % mark a1', 'exit-code == 0'],
    'cleanup': ['run % mark c1', "def string LATER = 'l'"],
}
SMALL = {
    'conf': [],
    'setup': ['run % mark s1'],
    'act': ['% mark act'],
    'before-assert': ['$ mark b1'],
    'assert': ['run % mark a1'],
    'cleanup': ["def string LATER = 'l'", 'run % mark c1 @[LATER]@'],
}
PHASES = ('conf', 'setup', 'act', 'before-assert', 'assert', 'cleanup')
ORDERS = {
    'std': PHASES,
    'cleanup-first': ('cleanup', 'conf', 'assert', 'setup', 'before-assert', 'act'),
}


def variants(tier):
    vs = [('full', FULL, 'std'), ('full', FULL, 'cleanup-first'), ('small', SMALL, 'std')]
    if tier == 'thorough':
        # every subset of instruction phases present (act always)
        for k in range(0, 4):
            for absent in itertools.combinations(('setup', 'before-assert', 'assert', 'cleanup'), k):
                if k == 0:
                    continue
                v = {p: ([] if p in absent else FULL[p]) for p in PHASES}
                if 'setup' in absent:
                    v['act'] = ['% mark act']  # S is defined in [setup]
                if 'cleanup' in absent:
                    v['assert'] = list(v['assert']) + ["def string LATER = 'l'"] if 'assert' not in absent else v['assert']
                vs.append(('full-without-' + '+'.join(absent), v, 'std'))
        vs.append(('small', SMALL, 'cleanup-first'))
    return vs


_VARIANTS = {}


def prepare(tier):
    cli.main_program()
    procseam.install()
    for t in ('quick', 'thorough'):
        for name, base, order in variants(t):
            _VARIANTS[(name, order)] = base


def defects_for(phase):
    if phase == 'conf':
        return CONF_DEFECTS
    if phase == 'act':
        return ACT_DEFECTS
    ds = list(DEFECTS)
    if phase == 'assert':
        ds += ASSERT_ONLY
    if phase == 'setup':
        ds += SETUP_ONLY
    return ds


def cases(tier):
    for name, base, order in variants(tier):
        for cmd in COMMANDS:
            yield (name, order, None, None, None, cmd)
        for phase in PHASES:
            positions = [0] if phase == 'act' else range(len(base[phase]) + 1)
            for idx in positions:
                for d in defects_for(phase):
                    if d[0] in ('duplicate-definition', 'act-defined-later') or d[0].startswith('defined-later'):
                        if not any('def string LATER' in l for l in base['cleanup']):
                            continue
                        if phase == 'cleanup':
                            defpos = [i for i, l in enumerate(base['cleanup']) if 'def string LATER' in l][0]
                            if d[0].startswith('defined-later') and idx > defpos:
                                continue  # reference after the definition: valid
                    cmds = COMMANDS if (tier == 'thorough' or name == 'full') else ('run', 'symbol')
                    for cmd in cmds:
                        yield (name, order, phase, idx, d[0], cmd)


def build_text(base, order, phase, idx, defect):
    blocks = {p: list(base[p]) for p in PHASES}
    if defect is not None:
        lines = ALL_DEFECTS[defect][1]
        if phase == 'act':
            blocks['act'] = list(lines)
            if len(ALL_DEFECTS[defect]) > 3:
                blocks['conf'] = list(blocks['conf']) + list(ALL_DEFECTS[defect][3])
        else:
            blocks[phase][idx:idx] = lines
    out = []
    for p in ORDERS[order]:
        if p == 'act' or blocks[p] or p == phase:
            out.append('[%s]' % p)
            out += blocks[p]
    return '\n'.join(out) + '\n'


def run(case) -> Result:
    name, order, phase, idx, defect, cmd = case
    base = _VARIANTS[(name, order)]
    res = Result()
    res.n = 1
    w = world.get()
    w.reset()
    seam = procseam.SEAM
    seam.reset()
    w.write('data.txt', 'hello\n')
    w.write('hd/file-in-home.txt', 'home\n')
    w.write('in-act-home.src', 'source\n')
    text = build_text(base, order, phase, idx, defect)
    p = w.write('c.case', text)
    snap = world.snapshot_tree(w.home)
    argv = {'run': [str(p)], 'keep': ['--keep', str(p)], 'act': ['--act', str(p)],
            'symbol': ['symbol', str(p)], 'symbol-name': ['symbol', str(p), 'LATER'],
            'symbol-ref': ['symbol', str(p), 'LATER', '--ref']}[cmd]
    o = cli.run(argv, real_files=(cmd == 'act'))
    errs = []
    if o.exc:
        errs.append('exception / hang: %s' % o.exc)
    calls = [c['args'] for c in seam.calls]
    sbs = w.sandboxes()
    home_changed = world.snapshot_tree(w.home) != snap
    state = w.process_state_diff()
    if defect is None:
        # sanity of the effect log: the base case shows all its effects (run modes) / none (symbol)
        if cmd in ('run', 'keep', 'act'):
            want = sum(1 for ph in PHASES for l in base[ph] if ' mark ' in l or l.startswith('% mark') or l.startswith('$ mark'))
            if cmd == 'act':
                want -= sum(1 for ph in ('before-assert', 'assert') for l in base[ph] if ' mark ' in l or l.startswith('$ mark'))
            if len(calls) != want:
                errs.append('base case: %d processes started, expected %d: %s' % (len(calls), want, calls))
            if cmd == 'run' and (o.rc != 0 or o.out != 'PASS\n'):
                errs.append('base case does not pass: %s %r' % (o.rc, o.out))
            if cmd == 'keep' and len(sbs) != 1:
                errs.append('base case --keep: sandboxes %s' % sbs)
        else:
            if calls or sbs:
                errs.append('symbol command executed something: calls %s sandboxes %s' % (calls, sbs))
            has_later = any('def string LATER' in l for ph in PHASES for l in base[ph])
            if o.rc != 0 and not (o.rc == 128 and cmd != 'symbol' and not has_later and 'Symbol not in test case' in o.err):
                errs.append('symbol command on a valid case: exit %s, stderr %r' % (o.rc, o.err[:200]))
        if home_changed:
            errs.append('home tree changed')
        res.outcomes[(cmd, 'base', o.rc)] += 1
    else:
        if calls:
            errs.append('a process was started although the case is invalid: %s' % calls[:3])
        if sbs:
            errs.append('a sandbox directory was created although the case is invalid: %s' % sbs)
        if home_changed:
            errs.append('home tree changed')
        if state:
            errs.append('cwd/environ changed: %s' % state[:2])
        want_idents = ALL_DEFECTS[defect][2]
        if cmd in ('run', 'keep', 'act'):
            if o.rc != 65:
                errs.append('exit code %s, expected 65' % o.rc)
            if cmd == 'run':
                ident = o.out.strip()
                if o.out != ident + '\n':
                    errs.append('stdout %r is not a single identifier line' % o.out[:200])
            else:
                ident = o.err.split('\n')[0]
                if o.out != '':
                    errs.append('%s: stdout %r, expected nothing' % (cmd, o.out[:200]))
            if ident not in ERR65:
                errs.append('identifier %r is not one of %s' % (ident, ERR65))
            elif ident not in want_idents:
                errs.append('identifier %r, expected %s for defect %s' % (ident, want_idents, defect))
            res.outcomes[(cmd, ident, o.rc)] += 1
        else:
            # symbol: a report (0), or the same error; nothing executed (checked above)
            ident = o.err.split('\n')[0] if o.rc != 0 else 'report'
            if o.rc not in (0, 65, 128):
                errs.append('symbol command: exit code %s' % o.rc)
            if o.rc == 65 and ident not in ERR65:
                errs.append('symbol command: exit 65 with identifier %r' % ident)
            if 'Traceback' in o.err:
                errs.append('symbol command: traceback on stderr')
            res.outcomes[(cmd, ident, o.rc)] += 1
        res.nontrivial += 1
    if not res.samples and defect is not None:
        res.samples.append({'case': case, 'file': text, 'argv': argv[:-1] + ['c.case'], 'rc': o.rc, 'stdout': o.out[:80],
                            'stderr_head': o.err[:120], 'processes': len(calls), 'sandboxes': sbs})
    if errs:
        res.violation(case, errs, dict(o.brief(), file=text, calls=calls))
    return res
