"""C10 — the action to check (and every other started program) gets the denoted argv / stdin / cwd; its outcome is captured
(DESIGN §3 C10).  Denotation-first generator: every argument item carries its source text and the arguments it denotes.
Virtual children record what they are given (S-PROC); a real slice re-runs cases with the compiled probe, which dumps
what a real process receives.
"""
import json
import os
import sys

from mc import world, procseam, cli, kf
from mc.result import Result

PROPERTY = 'C10'
LEVEL = 'exploration'
CHUNK = 50
RULE = ('program form {% name, PATH of executable, -python, $ shell line, @ SYMBOL} x argument list (all single items and pairs of a 16-item family: empty string, '
        'spaces, quotes, option-like, quoted reserved words, string / list / empty-list / path symbol references, quoted list reference, -existing-file, text until '
        'end of line, line continuation) x stdin {none, -stdin string / here-document / file / program output, `stdin =` in setup, both} x chain of program-symbol '
        'definitions (0..2 levels, each adding arguments, stdin and a transformation) x place {action to check under 4 actors, run in 4 phases, % and $ instructions, '
        '-stdout-from, -stderr-from, run transformer, run text matcher, run file matcher, exit-code -from} x exit code; non-trivial = something beyond the bare program name must be '
        'passed on (arguments, stdin, symbol chain) or the exit code is non-zero; distinct by construction')
ASSUMPTIONS = [
    'virtual children log argv / stdin / cwd at the subprocess.call seam; the real slice checks that a real process receives the same',
    'environment sets are C11\'s subject and not compared here',
]

VERIF = os.path.dirname(os.path.dirname(os.path.abspath(__file__)))
PROBE = os.path.join(VERIF, 'build', 'probe')
OUT = 'a\nline 2 of stdout\n'
ERR = 'text on stderr\n'

# argument items: (source text, denoted arguments); <ACT>, <HOME> are placeholders for directories
ITEMS = [
    ('a', ['a']),
    ("''", ['']),
    ("'a b'", ['a b']),
    ('"a  b"', ['a  b']),
    ('-x', ['-x']),
    ('--opt=v', ['--opt=v']),
    ("'(' '=' '!'", ['(', '=', '!']),
    ("'&&'", ['&&']),
    ('"it\'s"', ["it's"]),
    ('@[S]@', ['s v']),
    ('pre@[S]@post', ['pres vpost']),
    ('@[L]@', ['l1', 'l 2']),
    ('"@[L]@"', ['l1 l 2']),
    ('@[E]@', []),
    ('@[P]@', ['<ACT>/pf']),
    ('-existing-file -rel-home data.txt', ['<HOME>/data.txt']),
    ("'@[S]@'", ['@[S]@']),
    ('é', ['é']),
    # words that only begin / end with a reserved character; quoted words that are options at this position
    (')x', [')x']),
    ('x) ):', ['x)', '):']),
    ("'-existing-file' data.txt", ['-existing-file', 'data.txt']),
    ('"-existing-path"', ['-existing-path']),
]
LAST_ITEMS = [
    (":> rest of  line 'q' @[S]@ ", ["rest of  line 'q' s v"]),
    ('\\\n   next-line', ['next-line']),
]
DEFS = ["def string S = 's v'", "def list L = l1 'l 2'", 'def list E = ', 'def path P = -rel-act pf']

FORMS = ('percent', 'path', 'python', 'sym', 'sym2', 'sym2-identity-first', 'sym3-identity-around')
STDINS = ('none', 'str', 'here', 'file', 'prog', 'setup', 'both', 'prog-ign', 'prog-err-ign', 'prog-err', 'here-odd')
PLACES = ('act', 'setup-run', 'before-assert-run', 'assert-run', 'cleanup-run', 'setup-percent', 'stdout-from', 'stderr-from', 'run-transformer',
          'run-text-matcher', 'run-file-matcher', 'exit-code-from')


def arg_lists(tier):
    singles = [[i] for i in range(len(ITEMS))]
    pairs = [[i, j] for i in range(len(ITEMS)) for j in range(len(ITEMS)) if (i in (0, 1, 9, 11, 13, 15) or j in (1, 11, 13)) and i != j]
    out = [[]] + singles + pairs
    if tier == 'thorough':
        out += [[i, j] for i in range(len(ITEMS)) for j in range(len(ITEMS)) if [i, j] not in pairs]
        out += [[i, j, k] for i in (1, 9, 11, 13) for j in range(len(ITEMS)) for k in (0, 1, 11, 13, 14)]
    # a last item that must end the list
    out += [[i, ('last', k)] for i in (0, 11, 13) for k in range(len(LAST_ITEMS))] + [[('last', k)] for k in range(len(LAST_ITEMS))]
    return out


def prepare(tier):
    cli.main_program()
    procseam.install()


def cases(tier):
    als = arg_lists(tier)
    # A: argument lists x forms at the action to check and one instruction place
    for form in FORMS:
        for ai in range(len(als)):
            for place in ('act', 'setup-run'):
                yield ('v', place, form, ai, 'none', 0, False)
    # B: every place x form x stdin x a few argument lists
    for place in PLACES:
        for form in FORMS:
            for sk in STDINS:
                for ai in (0, 10, 12, 14):
                    yield ('v', place, form, ai, sk, 0, False)
    # C: shell form: verbatim line
    for place in ('act', 'setup-shell', 'before-assert-shell', 'cleanup-shell', 'stdout-from', 'setup-run'):
        for li in range(len(SHELL_LINES)):
            yield ('shell', place, li)
    # D: exit codes and the exit-code policy
    codes = (0, 1, 2, 127, 255) if tier == 'quick' else tuple(range(256))
    for code in codes:
        for form in ('percent', 'sym', 'sym2', 'python'):
            for sk in ('none', 'both'):
                yield ('v', 'act', form, 1, sk, code, False)
        for place in ('setup-run', 'before-assert-run', 'assert-run', 'cleanup-run', 'setup-percent', 'stdout-from', 'run-transformer', 'exit-code-from'):
            for ign in (False, True):
                for silent in (False, True):   # a program that fails without writing anything to stderr
                    for form in ('sym', 'percent'):
                        yield ('v', place, form, 1, 'none', code, ign, silent)
        # a failing program whose stderr is not text (not UTF-8): the exit-code policy is the same
        for place in ('setup-run', 'before-assert-run', 'assert-run', 'cleanup-run', 'setup-percent', 'stdout-from', 'run-transformer', 'exit-code-from'):
            for ign in (False, True):
                yield ('v', place, 'percent', 1, 'none', code, ign, 'bin')
        if code != 0:
            yield ('v', 'stderr-from', 'percent', 1, 'none', code, False, 'bin')
        for ign in (False, True):
            for sk in ('none', 'str', 'here'):
                yield ('v', 'stderr-from', 'sym2', 1, sk, code, ign)
                yield ('v', 'stdout-from', 'sym2', 1, sk, code, ign)
    # E: actors
    for actor in ('file', 'source', 'null'):
        for ai in (0, 3, 12, 14):
            for sk in ('none', 'setup'):
                yield ('actor', actor, ai, sk)
    # an unquoted reserved word among the arguments of the action: rejected, or passed on - never the silent end of the argument list
    for actor in ('file', 'command-line'):
        for tail in (') b c', 'a1 ) b', 'a1 ( b', 'a1 } b', "a1 ')' b"):
            yield ('actor-tail', actor, tail)
    # F: cwd after cd
    for place in PLACES:
        yield ('cd', place)
    # real slice
    if os.path.exists(PROBE):
        for ai in range(0, len(als), 3):
            yield ('real', 'act', ai, 'both')
        for ai in range(0, len(als), 7):
            yield ('real', 'setup-run', ai, 'str')


SHELL_LINES = ["prog a  'b c' \"d\" $X | tail -1 && echo ; x", 'prog @[S]@ "@[L]@" # not a comment', "prog ( a ) = : ! && || <<EOF", 'prog é \\ trailing  ']


def render_args(al):
    src, den = [], []
    for it in al:
        s, d = LAST_ITEMS[it[1]] if isinstance(it, (tuple, list)) else ITEMS[it]
        src.append(s)
        den += d
    return ' '.join(src), den


def stdin_src(kind):
    """-> (program -stdin line or None, setup stdin line or None, text from the program part, text from the setup part)"""
    if kind == 'none':
        return None, None, '', ''
    if kind == 'str':
        return "-stdin 'prog stdin'", None, 'prog stdin', ''
    if kind == 'here':
        return '-stdin <<EOF\nhere 1\n@[S]@\nEOF', None, 'here 1\ns v\n', ''
    if kind == 'here-odd':
        # body lines that look like something else: empty, blank, comment-like
        return '-stdin <<EOF\nline1\n\n# hash line\n   \nline2\nEOF', None, 'line1\n\n# hash line\n   \nline2\n', ''
    if kind == 'file':
        return '-stdin -contents-of -rel-home data.txt', None, 'data file\n', ''
    if kind == 'prog':
        return '-stdin -stdout-from % gen', None, 'GEN', ''
    if kind == 'prog-ign':
        return '-stdin -stdout-from -ignore-exit-code % genfail', None, 'GENOUT', ''
    if kind == 'prog-err-ign':
        return '-stdin -stderr-from -ignore-exit-code % genfail', None, 'GENERR', ''
    if kind == 'prog-err':
        return '-stdin -stderr-from % generr', None, 'GENERR0', ''
    if kind == 'setup':
        return None, "stdin = 'setup stdin'", '', 'setup stdin'
    return "-stdin 'prog stdin'", "stdin = 'setup stdin'", 'prog stdin', 'setup stdin'


def program(form, argsrc, stdin_line, in_parens=False):
    """-> (definition lines, PROGRAM source lines, argv prefix, stdin prefix text, transformation chain as functions)"""
    defs = []
    if form == 'percent':
        head, pre, sin, trs = '% prog', ['prog'], '', []
    elif form == 'path':
        head, pre, sin, trs = '-rel-home exe', ['<HOME>/exe'], '', []
    elif form == 'python':
        head, pre, sin, trs = '-python', [sys.executable], '', []
    elif form == 'sym':
        defs = ["def program P1 = % prog p1a 'p1 b'\n   -stdin ( 'p1-in ' )\n   -transformed-by replace a b"]
        head, pre, sin, trs = '@ P1', ['prog', 'p1a', 'p1 b'], 'p1-in ', [lambda s: s.replace('a', 'b')]
    elif form == 'sym2-identity-first':
        # the transformations accumulated along a chain of program symbols are ALL applied, in definition order - also when some are `identity`
        defs = ["def program P1 = % prog p1a\n   -transformed-by identity",
                "def program P2 = @ P1 p2a\n   -transformed-by char-case -to-upper"]
        head, pre, sin, trs = '@ P2', ['prog', 'p1a', 'p2a'], '', [lambda s: s.upper()]
    elif form == 'sym3-identity-around':
        defs = ["def program P1 = % prog\n   -transformed-by identity",
                "def program P2 = @ P1 p2a\n   -transformed-by replace a b",
                "def program P3 = @ P2\n   -stdin ( 'p3-in ' )\n   -transformed-by identity"]
        head, pre, sin, trs = '@ P3', ['prog', 'p2a'], 'p3-in ', [lambda s: s.replace('a', 'b')]
    else:
        defs = ["def program P1 = % prog p1a 'p1 b'\n   -stdin ( 'p1-in ' )\n   -transformed-by replace a b",
                "def program P2 = @ P1 @[L]@ p2a\n   -stdin ( 'p2-in ' )\n   -transformed-by replace b ca"]
        head, pre, sin, trs = '@ P2', ['prog', 'p1a', 'p1 b', 'l1', 'l 2', 'p2a'], 'p1-in p2-in ', [lambda s: s.replace('a', 'b'), lambda s: s.replace('b', 'ca')]
    lines = [(head + ' ' + argsrc).rstrip(' ') if not argsrc.endswith(' ') else head + ' ' + argsrc]
    if stdin_line:
        lines.append('   ' + stdin_line)
    return defs, lines, pre, sin, trs


def apply_trs(trs, s):
    for f in trs:
        s = f(s)
    return s


def build(place, form, al, sk, code, ign):
    argsrc, den = render_args(al)
    sline, setup_stdin, ptext, stext = stdin_src(sk)
    in_expr = place in ('run-transformer', 'run-text-matcher', 'run-file-matcher')
    multi = bool(sline) or argsrc.endswith(' ') or '\n' in argsrc
    defs, plines, pre, psin, trs = program(form, argsrc, sline)
    ph = {'conf': ['act-home = .'], 'setup': list(DEFS) + defs, 'act': ['% atc'], 'before-assert': [], 'assert': [], 'cleanup': []}
    if setup_stdin:
        ph['setup'].append(setup_stdin)
    P = '\n'.join(plines)
    ig = '-ignore-exit-code ' if ign else ''
    exp = {'argv': pre + den, 'stdin': psin + ptext, 'target': 'prog'}
    outcome = 'PASS'
    tout = apply_trs(trs, OUT)
    if place == 'act':
        ph['act'] = plines
        exp['stdin'] = psin + ptext + stext
        ph['assert'] = ['exit-code == %d' % code, 'stdout equals <<EOF\n%sEOF' % tout, 'stderr equals <<EOF\n%sEOF' % ERR]
    elif place.endswith('-run'):
        phase = place[:-4]
        ph[phase].append('run %s%s' % (ig, P))
        if code != 0 and not ign:
            outcome = 'FAIL' if phase == 'assert' else 'HARD_ERROR'
    elif place == 'setup-percent':
        if form == 'percent' and sline:
            return None  # the `%` instruction takes a program name and arguments only
        if form != 'percent':
            ph['setup'].append('run %s%s' % (ig, P))
        else:
            ph['setup'].append(P)  # the `%` instruction
            ign = False
        if code != 0 and not (ign and form != 'percent'):
            outcome = 'HARD_ERROR'
    elif place == 'stdout-from':
        ph['setup'].append('file from-prog.txt = -stdout-from %s%s' % (ig, P))
        ph['assert'].append('contents from-prog.txt : equals <<EOF\n%sEOF' % tout)
        if code != 0 and not ign:
            outcome = 'HARD_ERROR'
    elif place == 'stderr-from':
        ph['setup'].append('file from-prog.txt = -stderr-from %s%s' % (ig, P))
        ph['assert'].append('contents from-prog.txt : equals <<EOF\n%sEOF' % apply_trs(trs, ERR))
        if code != 0 and not ign:
            outcome = 'HARD_ERROR'
    elif place == 'run-transformer':
        if multi:
            return None
        ph['setup'].append("file model.txt = 'model text'")
        ph['assert'].append("contents model.txt : -transformed-by ( run %s%s ) equals '%s'" % (ig, P, apply_trs(trs, OUT).replace('\n', "' && ! equals '") if False else 'X'))
        ph['assert'][-1] = "contents model.txt : -transformed-by ( run %s%s ) ! is-empty" % (ig, P)
        exp['stdin'] = psin + ptext + 'model text'
        if code != 0 and not ign:
            outcome = 'HARD_ERROR'
    elif place == 'run-text-matcher':
        if multi or ign:
            return None
        ph['setup'].append("file model.txt = 'model text'")
        ph['assert'].append('contents model.txt : %s( run %s )' % ('' if code == 0 else '! ', P))
        exp['stdin'] = psin + ptext + 'model text'
    elif place == 'run-file-matcher':
        if multi or ign:
            return None
        ph['setup'].append("file model.txt = 'model text'")
        ph['assert'].append('exists model.txt : %s( run %s )' % ('' if code == 0 else '! ', P))
        exp['argv'] = pre + den + ['<ACT>/model.txt']
    elif place == 'exit-code-from':
        if ign:
            return None
        ph['assert'].append('exit-code -from %s\n   == %d' % (P, code))
    else:
        raise ValueError(place)
    lines = []
    for p in ('conf', 'setup', 'act', 'before-assert', 'assert', 'cleanup'):
        lines.append('[%s]' % p)
        lines += [l for l in ph[p] if l]
    return '\n'.join(lines) + '\n', exp, outcome


def subst(argv, sds_act, home):
    return [a.replace('<ACT>', sds_act).replace('<HOME>', home) for a in argv]


def run(case) -> Result:
    res = Result()
    res.n = 1
    k = case[0]
    w = world.get()
    w.reset()
    seam = procseam.SEAM
    seam.reset()
    w.write('data.txt', 'data file\n')
    exe = w.write('exe', '#!/bin/sh\n')
    os.chmod(exe, 0o755)
    w.write('src.txt', 'source file\n')
    if k == 'v':
        return _virtual(res, case, w, seam)
    if k == 'shell':
        return _shell(res, case, w, seam)
    if k == 'actor':
        return _actor(res, case, w, seam)
    if k == 'cd':
        return _cd(res, case, w, seam)
    if k == 'actor-tail':
        return _actor_tail(res, case, w, seam)
    if k == 'real':
        return _real(res, case, w, seam)
    raise ValueError(case)


def _target_calls(seam, exp_first):
    return [c for c in seam.calls if c['name'] not in ('atc', 'gen', 'genfail', 'generr')]


def _virtual(res, case, w, seam):
    _, place, form, ai, sk, code, ign = case[:7]
    silent = len(case) > 7 and case[7]
    al = arg_lists('thorough')[ai] if ai >= len(arg_lists('quick')) else arg_lists('quick')[ai]
    b = build(place, form, al, sk, code, ign)
    if b is None:
        res.stats['combination not expressible'] += 1
        return res
    text, exp, outcome = b
    seam.default = {'out': OUT, 'err': ('\udcff\udcfe not text\n' if silent == 'bin' else '') if silent else ERR, 'exit': code}
    seam.script['gen'] = {'out': 'GEN'}
    seam.script['genfail'] = {'out': 'GENOUT', 'err': 'GENERR', 'exit': 3}
    seam.script['generr'] = {'out': 'ignored', 'err': 'GENERR0', 'exit': 0}
    seam.script['atc'] = {'out': 'atc out\n'}
    o = cli.run_case(text)
    errs = []
    if o.exc:
        errs.append('exception / hang: %s' % o.exc)
    if o.ident != outcome:
        errs.append('outcome %s (rc %s), expected %s / %s' % (o.ident, o.rc, outcome, ' / '.join(cli.stderr_lines(o.err)[:8])))
    calls = [c for c in seam.calls if c['name'] not in ('atc', 'gen', 'genfail', 'generr')]
    home = str(w.home)
    stdin_pair = None
    if not calls:
        errs.append('the program was not started')
    else:
        if len(calls) > 1:
            errs.append('the program was started %d times' % len(calls))
        c = calls[0]
        sds_act = c['cwd']
        want = subst(exp['argv'], sds_act, home)
        if c['shell']:
            errs.append('started through the shell')
        if c['args'] != want:
            errs.append('argv %s, denoted %s' % (c['args'], want))
        got_stdin = c['stdin'] or ''
        if got_stdin != exp['stdin']:
            errs.append('stdin %r, denoted %r' % (got_stdin, exp['stdin']))
            stdin_pair = (got_stdin, exp['stdin'])
        if not sds_act.endswith('/act'):
            errs.append('started in %s, expected the act directory' % sds_act)
    res.outcomes[(place, o.ident)] += 1
    if al or sk != 'none' or form in ('sym', 'sym2') or code:
        res.nontrivial += 1
    if not res.samples and form == 'sym2' and sk != 'none':
        res.samples.append({'case': case, 'file': text, 'started': [{'args': c['args'], 'stdin': c['stdin']} for c in calls], 'outcome': o.ident})
    if errs:
        hit = kf.classify_c10(place, sk, errs, stdin_pair, o.ident, outcome)
        if hit:
            res.kf[hit] += 1
            return res
        res.violation(case, errs, {'file': text, 'calls': [{'args': c['args'], 'stdin': c['stdin'], 'shell': c['shell']} for c in seam.calls]})
    return res


def _shell(res, case, w, seam):
    _, place, li = case
    line = SHELL_LINES[li]
    ph = {'setup': list(DEFS), 'act': ['% atc'], 'before-assert': [], 'assert': [], 'cleanup': []}
    if place == 'act':
        ph['act'] = ['$ ' + line]
    elif place.endswith('-shell'):
        ph[place[:-6]].append('$ ' + line)
    elif place == 'stdout-from':
        ph['setup'].append('file f.txt = -stdout-from $ ' + line)
    else:
        ph['setup'].append('run $ ' + line)
    text = '\n'.join(sum([['[%s]' % p] + ph[p] for p in ('setup', 'act', 'before-assert', 'assert', 'cleanup')], [])) + '\n'
    seam.default = {'out': 'x', 'exit': 0}
    o = cli.run_case(text)
    errs = []
    if o.ident != 'PASS':
        errs.append('outcome %s: %s' % (o.ident, ' / '.join(cli.stderr_lines(o.err)[:6])))
    calls = [c for c in seam.calls if c['shell']]
    # the documented denotation: the remaining part of the line, symbol references substituted (STRING semantics of the line)
    want = line.replace('@[S]@', 's v').replace('@[L]@', 'l1 l 2')
    if len(calls) != 1:
        errs.append('%d shell processes started' % len(calls))
    else:
        got = calls[0]['args']
        if not isinstance(got, str):
            errs.append('shell command passed as %r, not as one string' % (got,))
        elif got.strip() != want.strip():
            errs.append('shell command %r, denoted %r' % (got, want))
    res.outcomes[('shell', o.ident)] += 1
    res.nontrivial += 1
    if errs:
        res.violation(case, errs, {'file': text, 'calls': [c['args'] for c in seam.calls]})
    return res


def _actor(res, case, w, seam):
    _, actor, ai, sk = case
    al = arg_lists('thorough')[ai] if ai >= len(arg_lists('quick')) else arg_lists('quick')[ai]
    argsrc, den = render_args(al)
    _, setup_stdin, _, stext = stdin_src(sk)
    ph_setup = list(DEFS) + ([setup_stdin] if setup_stdin else [])
    seam.default = {'out': OUT, 'err': ERR, 'exit': 3}
    if actor == 'file':
        conf = ['act-home = .', 'actor = file % interp i1 ' + "'i 2'"]
        act = ['src.txt ' + argsrc]
        want = ['interp', 'i1', 'i 2', '<HOME>/src.txt'] + den
    elif actor == 'source':
        conf = ['actor = source % interp i1']
        act = ['source line 1', '  line 2 ' + "'q'"]
        want = None
    else:
        conf = ['actor = null']
        act = ['anything at all ' + argsrc]
        want = 'none'
    asserts = ['exit-code == %d' % (0 if actor == 'null' else 3)]
    if actor == 'null':
        asserts += ['stdout is-empty', 'stderr is-empty']
    else:
        asserts += ['stderr equals <<EOF\n%sEOF' % ERR, 'stdout equals <<EOF\n%sEOF' % OUT]
    text = '\n'.join(['[conf]'] + conf + ['[setup]'] + ph_setup + ['[act]'] + act + ['[assert]'] + asserts) + '\n'
    src_seen = {}

    def on_call(rec):
        if actor == 'source' and rec['name'] == 'interp':
            try:
                with open(rec['args'][-1]) as f:
                    src_seen['text'] = f.read()
            except OSError as ex:
                src_seen['text'] = 'ERR %s' % ex

    seam.on_call = on_call
    o = cli.run_case(text)
    errs = []
    if o.ident != 'PASS':
        errs.append('outcome %s: %s' % (o.ident, ' / '.join(cli.stderr_lines(o.err)[:6])))
    calls = seam.calls
    if want == 'none':
        if calls:
            errs.append('null actor started a process: %s' % calls[0]['args'])
    elif len(calls) != 1:
        errs.append('%d processes started' % len(calls))
    else:
        c = calls[0]
        if actor == 'file':
            w_ = subst(want, c['cwd'], str(w.home))
            if c['args'] != w_:
                errs.append('argv %s, denoted %s' % (c['args'], w_))
        else:
            if c['args'][:2] != ['interp', 'i1'] or len(c['args']) != 3:
                errs.append('argv %s, expected interp i1 <source file>' % c['args'])
            if src_seen.get('text', '').rstrip('\n') != '\n'.join(act):
                errs.append('source file given to the interpreter holds %r, the act phase is %r' % (src_seen.get('text'), '\n'.join(act)))
        if (c['stdin'] or '') != stext:
            errs.append('stdin %r, denoted %r' % (c['stdin'], stext))
    res.outcomes[('actor', actor, o.ident)] += 1
    res.nontrivial += 1
    if errs:
        res.violation(case, errs, {'file': text, 'calls': [c['args'] for c in calls]})
    return res


def _actor_tail(res, case, w, seam):
    _, actor, tail = case
    seam.default = {'out': OUT, 'err': ERR, 'exit': 0}
    if actor == 'file':
        conf, act, head = ['act-home = .', 'actor = file % interp'], 'src.txt ' + tail, ['interp', '<HOME>/src.txt']
    else:
        conf, act, head = ['act-home = .'], '% interp ' + tail, ['interp']
    text = '\n'.join(['[conf]'] + conf + ['[act]', act]) + '\n'
    o = cli.run_case(text)
    import shlex
    errs = []
    calls = seam.calls
    all_args = shlex.split(tail)
    if o.ident == 'SYNTAX_ERROR' and o.rc == 65 and not calls:
        pass
    elif o.ident == 'PASS' and len(calls) == 1 and calls[0]['args'] == subst(head, calls[0]['cwd'], str(w.home)) + all_args:
        pass
    else:
        errs.append('[act] `%s` (%s actor): expected a syntax error or all the written arguments %s; got %s, processes %s' % (act, actor, all_args, o.ident, [c['args'] for c in calls]))
    res.outcomes[('actor-tail', actor, o.ident)] += 1
    res.nontrivial += 1
    if errs:
        res.violation(case, errs, {'file': text})
    return res


def _cd(res, case, w, seam):
    """The process is started in the test's current directory (after cd)."""
    _, place = case
    b = build(place, 'percent', [0], 'none', 0, False)
    if b is None:
        return res
    text, exp, outcome = b
    text = text.replace('[setup]\n', '[setup]\ndir sub/deeper\ncd sub/deeper\n', 1)
    if place in ('run-transformer', 'run-text-matcher', 'run-file-matcher'):
        text = text.replace('model.txt :', '-rel-act sub/deeper/model.txt :')
    if place in ('stdout-from', 'stderr-from'):
        text = text.replace('contents from-prog.txt', 'contents -rel-act sub/deeper/from-prog.txt')
    seam.default = {'out': OUT, 'err': ERR, 'exit': 0}
    seam.script['atc'] = {'out': 'x'}
    o = cli.run_case(text)
    errs = []
    if o.ident != 'PASS':
        errs.append('outcome %s: %s' % (o.ident, ' / '.join(cli.stderr_lines(o.err)[:6])))
    calls = [c for c in seam.calls if c['name'] == 'prog']
    if not calls:
        errs.append('program not started')
    elif not calls[0]['cwd'].endswith('/act/sub/deeper'):
        errs.append('started in %s, the current directory is <sds>/act/sub/deeper' % calls[0]['cwd'])
    res.outcomes[('cd', o.ident)] += 1
    res.nontrivial += 1
    if errs:
        res.violation(case, errs, {'file': text})
    return res


def _real(res, case, w, seam):
    """A real process (the compiled probe) must receive what the virtual child was given for the same case."""
    _, place, ai, sk = case
    al = arg_lists('thorough')[ai] if ai >= len(arg_lists('quick')) else arg_lists('quick')[ai]
    dump = str(w.ext / 'dump.json')
    results = {}
    for mode in ('virtual', 'real'):
        w.reset()
        seam.reset()
        w.write('data.txt', 'data file\n')
        b = build(place, 'percent', al, sk, 0, False)
        text, exp, outcome = b
        text = text.replace('% prog', '%% %s --dump %s' % (PROBE, dump), 1)
        text = text.replace('% gen', '% ' + PROBE).replace('% atc', '% ' + PROBE)
        # assertions about the output of the virtual child do not apply to the probe
        text = text.split('[assert]')[0] + '[assert]\nexit-code == 0\n' if place == 'act' else text
        seam.default = {'out': OUT, 'err': ERR, 'exit': 0}
        seam.script['probe'] = {'out': 'probe done\n'}
        seam.real = (mode == 'real')
        o = cli.run_case(text)
        if mode == 'virtual':
            c = [c for c in seam.calls if isinstance(c['args'], list) and '--dump' in c['args']]
            results[mode] = (o.ident, c[0]['args'][3:] if c else None, (c[0]['stdin'] or '') if c else None, c[0]['cwd'] if c else None)
        else:
            try:
                with open(dump) as f:
                    d = json.load(f)
                results[mode] = (o.ident, d['argv'], d['stdin'], d['cwd'])
            except Exception as ex:  # noqa
                results[mode] = (o.ident, 'no dump: %s' % ex, None, None)
    errs = []
    v, r = results['virtual'], results['real']
    if v[0] != 'PASS' or r[0] != 'PASS':
        errs.append('outcomes virtual %s / real %s' % (v[0], r[0]))
    norm = lambda xs: [__import__('re').sub(r'exactly-[a-z0-9_]{8}', 'exactly-<R>', x) for x in xs] if isinstance(xs, list) else xs
    if norm(v[1]) != norm(r[1]):
        errs.append('argv seen by the real process %s, by the virtual child %s' % (r[1], v[1]))
    if (v[2] or '').replace('GEN', 'probe done\n') != r[2]:
        errs.append('stdin seen by the real process %r, by the virtual child %r' % (r[2], v[2]))
    if v[3] and r[3] and os.path.basename(v[3]) != os.path.basename(r[3]):
        errs.append('cwd real %s, virtual %s' % (r[3], v[3]))
    res.outcomes[('real', r[0])] += 1
    res.stats['real-process cases'] += 1
    res.nontrivial += 1
    if errs:
        res.violation(case, errs, {'virtual': v, 'real': r})
    return res
