"""C16 — suite run: every case once, verdict OK iff all succeed, reporters agree (DESIGN §3 C16).
S-CLI + S-PROC (every case's action logs a marker) with the stub instruction for INTERNAL / HARD / VALIDATION errors."""
import itertools
import os
import re
import xml.etree.ElementTree as ET

from mc import world, procseam, cli, stubprog
from mc.result import Result

PROPERTY = 'C16'
LEVEL = 'exploration'
CHUNK = 40
RULE = ('suite hierarchies (flat with plain names / globs, one and two sub-suites, depth 2, directories with exactly.suite, sub/*.case, [suites] globs matching directories and suite files) x every assignment of the 14 verdicts '
        '(PASS, FAIL, XFAIL, XPASS, SKIPPED, HARD_ERROR, VALIDATION_ERROR, instruction SYNTAX_ERROR, act-phase SYNTAX_ERROR, INTERNAL_ERROR, FILE_ACCESS_ERROR, case file that is not UTF-8, FAIL whose message quotes control characters, unexpected exception while the case is processed) to <= 2 cases '
        '(3 cases on the flat hierarchy; thorough: 3 everywhere) x reporter {progress, junit}; plus invalid suites (listed twice in several ways, diamond, cycle, self reference, '
        'missing case / suite, syntax error, unknown section, suite file that is not UTF-8, names below a regular file, symbolic-link loops, patterns that are not valid glob patterns); one suite listing a case file several times (4 listings x 4 verdicts^2): all reporters count exactly the executions that took place; non-trivial = at least one case is not PASS or the hierarchy has sub-suites or is invalid')
ASSUMPTIONS = [
    'durations printed by the reporters are ignored',
    'case actions are virtual children whose start is the execution marker',
]

VERDICTS = ('PASS', 'FAIL', 'XFAIL', 'XPASS', 'SKIPPED', 'HARD_ERROR', 'VALIDATION_ERROR', 'SYNTAX_ERROR', 'ACT_SYNTAX_ERROR', 'INTERNAL_ERROR', 'FILE_ACCESS_ERROR',
            'UNDECODABLE', 'FAIL_CTRL', 'PROCESSING_INTERNAL_ERROR')
SUCCESS = ('PASS', 'SKIPPED', 'XFAIL')


def case_text(verdict, marker):
    act = '% mark ' + marker
    if verdict == 'PASS':
        return '[act]\n%s\n' % act
    if verdict == 'FAIL':
        return '[act]\n%s\n[assert]\nexit-code == 1\n' % act
    if verdict == 'XFAIL':
        return '[conf]\nstatus = FAIL\n[act]\n%s\n[assert]\nexit-code == 1\n' % act
    if verdict == 'XPASS':
        return '[conf]\nstatus = FAIL\n[act]\n%s\n' % act
    if verdict == 'SKIPPED':
        return '[conf]\nstatus = SKIP\n[act]\n%s\n' % act
    if verdict == 'HARD_ERROR':
        return '[setup]\nstub main HEr\n[act]\n%s\n' % act
    if verdict == 'VALIDATION_ERROR':
        return '[cleanup]\nstub pre VE\n[act]\n%s\n' % act
    if verdict == 'SYNTAX_ERROR':
        return '[setup]\nno-such-instruction\n[act]\n%s\n' % act
    if verdict == 'ACT_SYNTAX_ERROR':
        return "[act]\n%s 'unterminated\n" % act
    if verdict == 'INTERNAL_ERROR':
        return '[assert]\nstub main EXC\n[act]\n%s\n' % act
    if verdict == 'FILE_ACCESS_ERROR':
        return '[setup]\nincluding no-such-file.xly\n[act]\n%s\n' % act
    if verdict == 'FAIL_CTRL':
        # a failing assertion whose message quotes control characters printed by the action
        return "[act]\n%s ctrl\n[assert]\nstdout equals 'x'\n" % act
    if verdict == 'PROCESSING_INTERNAL_ERROR':
        # the case fails as a whole while it is processed (read / parsed), with an unexpected exception: here a NUL character in the name of
        # an included file (known finding KF-C18-NUL) - whatever the cause, both reporters must count the case as an error
        return '[setup]\nincluding a\x00b\n[act]\n%s\n' % act
    if verdict == 'UNDECODABLE':
        # a case file that cannot be read as text (not UTF-8): processing the case fails as a whole
        return b'[act]\n% mark \xff\xfe\n'
    raise ValueError(verdict)


RUNS_ACT = ('PASS', 'FAIL', 'XFAIL', 'XPASS', 'INTERNAL_ERROR', 'FAIL_CTRL')
IDENT = {'ACT_SYNTAX_ERROR': 'SYNTAX_ERROR', 'UNDECODABLE': 'FILE_ACCESS_ERROR', 'FAIL_CTRL': 'FAIL', 'PROCESSING_INTERNAL_ERROR': 'INTERNAL_ERROR'}

# hierarchy: name -> (files builder).  A hierarchy is {suite file path: {'suites': [lines], 'cases': [lines]}} plus the case slots
#   slots: ordered list of case paths in *expected processing order* grouped by suite: [(suite display name, [case paths])]
HIER = {
    'flat1': ({'main.suite': ([], ['c1.case'])}, [('main.suite', ['c1.case'])], 'main.suite'),
    'flat2': ({'main.suite': ([], ['c2.case', 'c1.case'])}, [('main.suite', ['c2.case', 'c1.case'])], 'main.suite'),
    'flat3': ({'main.suite': ([], ['c1.case', 'c2.case', 'c3.case'])}, [('main.suite', ['c1.case', 'c2.case', 'c3.case'])], 'main.suite'),
    'glob2': ({'main.suite': ([], ['*.case'])}, [('main.suite', ['a.case', 'b.case'])], 'main.suite'),
    'glob3': ({'main.suite': ([], ['?.case', 'k*.case'])}, [('main.suite', ['a.case', 'c.case', 'k1.case'])], 'main.suite'),
    'glob-and-name': ({'main.suite': ([], ['z.case', 'sub/*.case'])}, [('main.suite', ['z.case', 'sub/a.case'])], 'main.suite'),
    'one-sub': ({'main.suite': (['sub/s.suite'], ['c1.case']), 'sub/s.suite': ([], ['x.case'])},
                [('sub/s.suite', ['sub/x.case']), ('main.suite', ['c1.case'])], 'main.suite'),
    'two-subs': ({'main.suite': (['s2.suite', 's1.suite'], []), 's1.suite': ([], ['c1.case']), 's2.suite': ([], ['c2.case'])},
                 [('s2.suite', ['c2.case']), ('s1.suite', ['c1.case']), ('main.suite', [])], 'main.suite'),
    'depth2': ({'main.suite': (['a/a.suite'], []), 'a/a.suite': (['b/b.suite'], ['ca.case']), 'a/b/b.suite': ([], ['cb.case'])},
               [('a/b/b.suite', ['a/b/cb.case']), ('a/a.suite', ['a/ca.case']), ('main.suite', [])], 'main.suite'),
    'dir-arg': ({'d/exactly.suite': (['subdir'], ['c1.case']), 'd/subdir/exactly.suite': ([], ['c2.case'])},
                [('subdir/exactly.suite', ['subdir/c2.case']), ('exactly.suite', ['c1.case'])], 'd'),
    'sub-glob': ({'main.suite': (['subs/*.suite'], ['c0.case']), 'subs/b.suite': ([], ['cb.case']), 'subs/a.suite': ([], ['ca.case'])},
                 [('subs/a.suite', ['subs/ca.case']), ('subs/b.suite', ['subs/cb.case']), ('main.suite', ['c0.case'])], 'main.suite'),
    # globs in [suites] that match DIRECTORIES (each stands for DIR/exactly.suite), alone and mixed with suite files
    'sub-glob-dirs': ({'main.suite': (['sub*'], []), 'sub1/exactly.suite': ([], ['a.case']), 'sub2/exactly.suite': ([], ['b.case'])},
                      [('sub1/exactly.suite', ['sub1/a.case']), ('sub2/exactly.suite', ['sub2/b.case']), ('main.suite', [])], 'main.suite'),
    'sub-glob-nested-dirs': ({'main.suite': (['parts/s-*'], ['m.case']), 'parts/s-x/exactly.suite': ([], ['a.case'])},
                             [('parts/s-x/exactly.suite', ['parts/s-x/a.case']), ('main.suite', ['m.case'])], 'main.suite'),
    'sub-glob-dir-and-file': ({'main.suite': (['s?*'], []), 's1/exactly.suite': ([], ['a.case']), 's2.suite': ([], ['b.case'])},
                              [('s1/exactly.suite', ['s1/a.case']), ('s2.suite', ['b.case']), ('main.suite', [])], 'main.suite'),
    'sub-glob-dirs3': ({'main.suite': (['c/*/'], ['m.case']), 'c/x/exactly.suite': ([], ['a.case']), 'c/y/exactly.suite': ([], ['b.case'])},
                       [('c/x/exactly.suite', ['c/x/a.case']), ('c/y/exactly.suite', ['c/y/b.case']), ('main.suite', ['m.case'])], 'main.suite'),
    # an intermediate suite WITHOUT cases of its own that only lists sub-suites (file and directory form)
    'aggregator-mid': ({'main.suite': (['mid.suite'], ['m.case']), 'mid.suite': (['leaf.suite'], []), 'leaf.suite': ([], ['x.case'])},
                       [('leaf.suite', ['x.case']), ('mid.suite', []), ('main.suite', ['m.case'])], 'main.suite'),
    'aggregator-mid-dirs': ({'main.suite': (['mid'], []), 'mid/exactly.suite': (['*/exactly.suite'], []), 'mid/l1/exactly.suite': ([], ['a.case']),
                             'mid/l2/exactly.suite': ([], ['b.case'])},
                            [('mid/l1/exactly.suite', ['mid/l1/a.case']), ('mid/l2/exactly.suite', ['mid/l2/b.case']), ('mid/exactly.suite', []), ('main.suite', [])], 'main.suite'),
    # quoted names are plain names, also when they contain wildcard characters
    'quoted-wildcards': ({'main.suite': ([], ["'t[1].case'", 't1.case'])}, [('main.suite', ['t[1].case', 't1.case'])], 'main.suite'),
    'quoted-star': ({'main.suite': ([], ['"*.case"']), 'other.case': None}, [('main.suite', ['*.case'])], 'main.suite'),
    'quoted-sub-suite-dir': ({'main.suite': (["'v[2]'"], ['m.case']), 'v[2]/exactly.suite': ([], ['a.case'])},
                             [('v[2]/exactly.suite', ['v[2]/a.case']), ('main.suite', ['m.case'])], 'main.suite'),
    # file names with characters XML does not allow (the JUnit report must stay well-formed; the names are shown with a replacement character)
    'ctrl-char-in-case-name': ({'main.suite': ([], ['?-c.case', 'z.case'])}, [('main.suite', ['\x01-c.case', 'z.case'])], 'main.suite'),
    'ctrl-char-in-suite-name': ({'main.suite': (['s\x02b.suite'], []), 's\x02b.suite': ([], ['a.case'])}, [('s\x02b.suite', ['a.case']), ('main.suite', [])], 'main.suite'),
}
INVALID = {
    'sub-twice': {'main.suite': (['s.suite', 's.suite'], ['c.case']), 's.suite': ([], ['x.case'])},
    'sub-name-and-glob': {'main.suite': (['s.suite', '*.suite'], ['c.case']), 's.suite': ([], ['x.case'])},
    'diamond': {'main.suite': (['a.suite', 'b.suite'], []), 'a.suite': (['c.suite'], []), 'b.suite': (['c.suite'], []), 'c.suite': ([], ['x.case'])},
    'cycle': {'main.suite': (['a.suite'], ['c.case']), 'a.suite': (['main.suite'], ['x.case'])},
    'cycle2': {'main.suite': (['a.suite'], ['c.case']), 'a.suite': (['b.suite'], []), 'b.suite': (['a.suite'], ['x.case'])},
    'self': {'main.suite': (['main.suite'], ['c.case'])},
    'listed-by-parent-and-sibling': {'main.suite': (['a.suite', 'b.suite'], []), 'a.suite': (['b.suite'], ['x.case']), 'b.suite': ([], ['c.case'])},
    'missing-case': {'main.suite': ([], ['c.case', 'no-such.case'])},
    'missing-suite': {'main.suite': (['no-such.suite'], ['c.case'])},
    'missing-case-in-sub': {'main.suite': (['s.suite'], ['c.case']), 's.suite': ([], ['no-such.case'])},
    'syntax-error-conf': {'main.suite': ([], ['c.case'], '[conf]\nno-such-conf-instruction x\n')},
    'syntax-error-in-sub': {'main.suite': (['s.suite'], ['c.case']), 's.suite': ([], ['x.case'], '[setup]\nno-such-instruction\n')},
    'unknown-section': {'main.suite': ([], ['c.case'], '[no-such-section]\nx\n')},
    'quoted-missing-with-wildcard-chars': {'main.suite': ([], ['c.case', "'gone[1].case'"])},
    'quoted-missing-suite-with-wildcard-chars': {'main.suite': (["'no-such*.suite'"], ['c.case'])},
    # files that cannot be read / reached, patterns that are no patterns: all are errors OF THE SUITE (exit 3), never a traceback
    'suite-not-utf8': {'main.suite': {'bytes': b'\xff\xfe[cases]\nc.case\n'}},
    'sub-suite-not-utf8': {'main.suite': (['s.suite'], ['c.case']), 's.suite': {'bytes': b'[cases]\nx.case\n\xff\xfe'}},
    'case-below-a-regular-file': {'main.suite': ([], ['c.case', 'c.case/x.case'])},
    'suite-below-a-regular-file': {'main.suite': (['c.case/s.suite'], ['c.case'])},
    'case-symlink-loop': {'main.suite': ([], ['c.case', 'loop.case']), 'loop.case': {'symlink': 'loop.case'}},
    'suite-symlink-loop': {'main.suite': (['loop.suite'], ['c.case']), 'loop.suite': {'symlink': 'loop.suite'}},
    'glob-double-star-inside-component': {'main.suite': ([], ['c.case', 'x**.case'])},
    'glob-absolute-pattern': {'main.suite': ([], ['/*-no-such-dir-at-root/*.case'])},
    'suite-glob-double-star-inside-component': {'main.suite': (['s**.suite'], ['c.case'])},
    'dir-without-default-suite': {'main.suite': (['emptydir'], ['c.case']), 'emptydir/readme.txt': None},
}


def prepare(tier):
    stubprog.main_program()
    procseam.install()


def cases(tier):
    for h, (files, slots, arg) in HIER.items():
        n = sum(len(cs) for _, cs in slots)
        if tier == 'quick' and n > 2 and h not in ('flat3',):
            continue
        for assign in itertools.product(range(len(VERDICTS)), repeat=n):
            for rep in ('progress', 'junit'):
                yield ('run', h, assign, rep)
    for name in INVALID:
        for rep in ('progress', 'junit'):
            yield ('invalid', name, rep)
    # ONE suite that lists the same case file more than once (plain name + glob, name twice, glob twice)
    for li in range(len(DUP_LISTINGS)):
        for assign in itertools.product(range(len(DUP_VERDICTS)), repeat=2):
            for rep in ('progress', 'junit'):
                yield ('dup', li, assign, rep)


DUP_LISTINGS = [['b.case', '?.case'], ['a.case', 'a.case', 'b.case'], ['*.case', '?.case'], ['a.case', 'sub/../a.case', 'b.case']]
DUP_EXPANDED = [['b.case', 'a.case', 'b.case'], ['a.case', 'a.case', 'b.case'], ['a.case', 'b.case', 'a.case', 'b.case'], ['a.case', 'a.case', 'b.case']]
DUP_VERDICTS = ('PASS', 'FAIL', 'XFAIL', 'INTERNAL_ERROR')      # all of them run the action: executions can be counted


def _dup(res, case, w, seam, mp):
    """A case file listed several times in one suite: whether it is then processed once per listing (as the unchanged program does) or once in
    all is not fixed by the statement; what IS fixed: every reporter counts exactly the executions that took place, in their order."""
    _, li, assign, rep = case
    verdict_of = {'a.case': DUP_VERDICTS[assign[0]], 'b.case': DUP_VERDICTS[assign[1]]}
    for c, v in verdict_of.items():
        w.write(c, case_text(v, c))
    w.write('sub/keep', '')
    w.write('main.suite', '[cases]\n' + '\n'.join(DUP_LISTINGS[li]) + '\n')
    o = cli.run(['suite'] + (['--reporter', 'junit'] if rep == 'junit' else []) + [str(w.home / 'main.suite')], mp=mp)
    errs = []
    if o.exc:
        errs.append('exception: %s' % o.exc)
    marks = [c['args'][1] for c in seam.calls if c['name'] == 'mark']
    per_listing = DUP_EXPANDED[li]
    once = [c for i, c in enumerate(per_listing) if c not in per_listing[:i]]
    if marks not in (per_listing, once):
        errs.append('cases executed: %s; the listing %s gives %s (or each file once: %s)' % (marks, DUP_LISTINGS[li], per_listing, once))
    bad = sum(1 for c in marks if verdict_of[c] not in SUCCESS)
    if rep == 'progress':
        case_lines = [re.sub(r'\(\d+(\.\d+)?s\)', '', l).replace(':', ' ').split() for l in o.out.split('\n') if l.startswith('case')]
        got = [(os.path.basename(t[1]), t[-1]) for t in case_lines]
        want = [(c, IDENT.get(verdict_of[c], verdict_of[c])) for c in marks]
        if got != want:
            errs.append('progress: case lines %s, executions %s' % (got, want))
        m = re.search(r'Ran (\d+) tests?', o.err)
        if m and int(m.group(1)) != len(marks):
            errs.append('progress: summary says "Ran %s tests", %d cases were executed' % (m.group(1), len(marks)))
        if o.rc != (0 if bad == 0 else 4):
            errs.append('exit code %s with %d unsuccessful executions' % (o.rc, bad))
    else:
        try:
            root = ET.fromstring(o.out)
        except ET.ParseError as ex:
            root = None
            errs.append('junit: output is not well-formed XML: %s' % ex)
        if root is not None:
            tcs = list(root.iter('testcase'))
            if root.get('tests') != str(len(marks)) or len(tcs) != len(marks):
                errs.append('junit: tests=%s, %d testcase elements, %d cases were executed' % (root.get('tests'), len(tcs), len(marks)))
            if [os.path.basename(t.get('name')) for t in tcs] != marks:
                errs.append('junit: testcases %s, executions %s' % ([t.get('name') for t in tcs], marks))
            fe = int(root.get('failures') or 0) + int(root.get('errors') or 0)
            marked = sum(1 for t in tcs if t.find('failure') is not None or t.find('error') is not None)
            if fe != bad or marked != bad:
                errs.append('junit: failures+errors = %d, %d elements carry a failure/error, %d executions were unsuccessful' % (fe, marked, bad))
    res.outcomes[('dup', rep, o.rc)] += 1
    res.nontrivial += 1
    if errs:
        res.violation(case, errs, {'stdout': o.out[:1200], 'stderr': o.err[:600], 'verdicts': verdict_of, 'listing': DUP_LISTINGS[li]})
    return res


def _mark(rec):
    return {'exit': 0, 'out': 'a\x1bb\x01\x0c \ufffe' if 'ctrl' in rec['args'] else ''}


def write_suite(w, path, spec):
    if spec is None:
        w.write(path, 'not a suite\n')
        return
    if isinstance(spec, dict):
        p = w.write(path, '')
        if 'bytes' in spec:
            with open(p, 'wb') as f:
                f.write(spec['bytes'])
        else:
            os.unlink(p)
            os.symlink(spec['symlink'], p)
        return
    suites, cases_ = spec[0], spec[1]
    extra = spec[2] if len(spec) > 2 else ''
    text = ''
    if suites:
        text += '[suites]\n' + '\n'.join(suites) + '\n'
    text += '[cases]\n' + '\n'.join(cases_) + '\n' + extra
    w.write(path, text)


def run(case) -> Result:
    res = Result()
    res.n = 1
    w = world.get()
    w.reset()
    seam = procseam.SEAM
    seam.reset()
    seam.default = {'exit': 0}
    seam.script['mark'] = _mark
    mp = stubprog.main_program()
    if case[0] == 'invalid':
        return _invalid(res, case, w, seam, mp)
    if case[0] == 'dup':
        return _dup(res, case, w, seam, mp)
    _, h, assign, rep = case
    orders = ('reverse', 'forward') if 'glob' in h else ('reverse',)
    for creation in orders:
        w.reset()
        seam.reset()
        seam.default = {'exit': 0}
        seam.script['mark'] = _mark
        _run_one(res, case, w, seam, mp, creation)
    return res


def _run_one(res, case, w, seam, mp, creation):
    _, h, assign, rep = case
    files, slots, arg = HIER[h]
    base = 'd/' if h == 'dir-arg' else ''
    for path, spec in files.items():
        write_suite(w, path, spec)
    flat = [(s, c) for s, cs in slots for c in cs]
    verdict_of = {}
    for (s, c), vi in zip(flat, assign):
        verdict_of[c] = VERDICTS[vi]
    # files are created in reverse order (and a decoy between them), so that directory order differs from the sorted order of glob matches
    for (s, c) in (reversed(flat) if creation == 'reverse' else flat):
        ct = case_text(verdict_of[c], c)
        if isinstance(ct, bytes):
            w.write(base + c, '')
            (w.home / (base + c)).write_bytes(ct)
        else:
            w.write(base + c, ct)
        if 'glob' in h:
            w.write(base + os.path.dirname(c) + ('/' if os.path.dirname(c) else '') + 'zz-' + os.path.basename(c) + '.not-a-case', 'x')
    args = ['suite'] + (['--reporter', 'junit'] if rep == 'junit' else []) + [str(w.home / arg)]
    o = cli.run(args, mp=mp)
    errs = []
    if o.exc:
        errs.append('exception: %s' % o.exc)
    all_ok = all(verdict_of[c] in SUCCESS for _, c in flat)
    marks = [c['args'][1] for c in seam.calls if c['name'] == 'mark']
    want_marks = [c for _, c in flat if verdict_of[c] in RUNS_ACT]
    if marks != want_marks:
        errs.append('actions executed %s, expected each case once in processing order: %s' % (marks, want_marks))
    if rep == 'progress':
        # one event per line; only the tokens are compared (kind, name, what), not spacing or durations
        lines = []
        for l in o.out.split('\n'):
            if not l.strip():
                continue
            toks = re.sub(r'\(\d+(\.\d+)?s\)', '', l).replace(':', ' ').split()
            lines.append(tuple(toks))
        want = []
        for s, cs in slots:
            want.append(('suite', s, 'begin'))
            for c in cs:
                want.append(('case', c, IDENT.get(verdict_of[c], verdict_of[c])))
            want.append(('suite', s, 'end'))
        want.append(('OK',) if all_ok else ('ERROR',))
        if lines != want:
            errs.append('progress output %s, expected %s' % (lines, want))
        if o.rc != (0 if all_ok else 4):
            errs.append('exit code %s, expected %s' % (o.rc, 0 if all_ok else 4))
        m = re.search(r'Ran (\d+) tests?', o.err)
        if m and int(m.group(1)) != len(flat):
            errs.append('progress: summary says "Ran %s tests", the suite has %d cases' % (m.group(1), len(flat)))
    else:
        if o.rc != 0:
            errs.append('junit: exit code %s, documented: unconditionally 0' % o.rc)
        try:
            root = ET.fromstring(o.out)
        except ET.ParseError as ex:
            root = None
            errs.append('junit: output is not well-formed XML: %s' % ex)
        if root is not None:
            suites_ = [root] if root.tag == 'testsuite' else list(root.iter('testsuite'))
            seen = []
            for ts in suites_:
                tcs = list(ts.findall('testcase'))
                names = [t.get('name') for t in tcs]
                seen += names
                if str(len(tcs)) != ts.get('tests'):
                    errs.append('junit: suite %s has tests=%s but %d testcase elements' % (ts.get('name'), ts.get('tests'), len(tcs)))
                bad = 0
                for t in tcs:
                    v = {''.join(ch if ch >= ' ' else '\ufffd' for ch in k): vv for k, vv in verdict_of.items()}.get(t.get('name'))
                    marked = t.find('failure') is not None or t.find('error') is not None
                    if v is None:
                        continue
                    if v in SUCCESS and marked:
                        errs.append('junit: successful case %s (%s) carries a failure/error element' % (t.get('name'), v))
                    if v not in SUCCESS:
                        bad += 1
                        if not marked:
                            errs.append('junit: unsuccessful case %s (%s) has neither failure nor error element' % (t.get('name'), v))
                try:
                    fe = int(ts.get('failures')) + int(ts.get('errors'))
                except (TypeError, ValueError):
                    fe = None
                if fe != bad:
                    errs.append('junit: suite %s failures+errors = %s, number of unsuccessful cases = %d' % (ts.get('name'), fe, bad))
            xs = lambda n: ''.join(ch if (ch in '\t\n\r' or ' ' <= ch <= '\ud7ff' or '\ue000' <= ch <= '\ufffd') else '\ufffd' for ch in n)
            if sorted(seen) != sorted(xs(c) for _, c in flat):
                errs.append('junit: testcases %s, cases of the suite %s' % (sorted(seen), sorted(c for _, c in flat)))
    res.outcomes[(rep, 'OK' if all_ok else 'ERROR', o.rc)] += 1
    if not all_ok or len(slots) > 1:
        res.nontrivial += 1
    if not res.samples and not all_ok and len(slots) > 1:
        res.samples.append({'hierarchy': h, 'verdicts': verdict_of, 'reporter': rep, 'rc': o.rc, 'stdout': o.out[:600]})
    if errs:
        res.violation(case, errs, {'stdout': o.out[:1500], 'stderr': o.err[:500], 'verdicts': verdict_of})
    return res


def _invalid(res, case, w, seam, mp):
    _, name, rep = case
    for path, spec in INVALID[name].items():
        write_suite(w, path, spec)
    for c in ('c.case', 'x.case'):
        w.write(c, case_text('PASS', c))
    args = ['suite'] + (['--reporter', 'junit'] if rep == 'junit' else []) + [str(w.home / 'main.suite')]
    o = cli.run(args, mp=mp)
    errs = []
    if o.exc:
        errs.append('exception: %s' % o.exc)
    if o.rc != 3:
        errs.append('invalid suite (%s): exit code %s, expected 3' % (name, o.rc))
    marks = [c['args'] for c in seam.calls]
    if marks:
        errs.append('invalid suite (%s): cases were executed: %s' % (name, marks))
    if rep == 'progress':
        lines = [l for l in o.out.split('\n') if l.strip()]
        if lines[-1:] != ['INVALID_SUITE']:
            errs.append('invalid suite (%s): last stdout line %s, expected INVALID_SUITE' % (name, lines[-1:]))
        if any(l.startswith('case') for l in lines):
            errs.append('invalid suite (%s): case lines reported: %s' % (name, lines))
    res.outcomes[('invalid', rep, o.rc)] += 1
    res.nontrivial += 1
    if errs:
        res.violation(case, errs, {'stdout': o.out[:800], 'stderr': o.err[:800]})
    return res
