/* probe: a real child process for the real-process slices (C10, C19).
 *   probe [--pidfile F] [--ignore-term] [--sleep SECONDS] [--chdir DIR] [--dump F] [--exit N] [ARGS...]
 * --dump F writes a JSON record {argv, stdin, cwd, env X/Y} to F (argv = the arguments after the options). */
#include <signal.h>
#include <stdio.h>
#include <stdlib.h>
#include <string.h>
#include <unistd.h>

static void json_str(FILE *f, const char *s) {
    fputc('"', f);
    for (; *s; s++) {
        unsigned char c = (unsigned char) *s;
        if (c == '"' || c == '\\') fprintf(f, "\\%c", c);
        else if (c < 0x20) fprintf(f, "\\u%04x", c);
        else fputc(c, f);
    }
    fputc('"', f);
}

int main(int argc, char **argv) {
    const char *pidfile = NULL, *dump = NULL, *chdir_to = NULL;
    double sleep_s = 0;
    int exit_code = 0, i = 1;
    for (; i < argc; i++) {
        if (!strcmp(argv[i], "--pidfile") && i + 1 < argc) pidfile = argv[++i];
        else if (!strcmp(argv[i], "--ignore-term")) signal(SIGTERM, SIG_IGN);
        else if (!strcmp(argv[i], "--sleep") && i + 1 < argc) sleep_s = atof(argv[++i]);
        else if (!strcmp(argv[i], "--chdir") && i + 1 < argc) chdir_to = argv[++i];
        else if (!strcmp(argv[i], "--dump") && i + 1 < argc) dump = argv[++i];
        else if (!strcmp(argv[i], "--exit") && i + 1 < argc) exit_code = atoi(argv[++i]);
        else break;
    }
    if (pidfile) {
        FILE *f = fopen(pidfile, "w");
        if (f) { fprintf(f, "%d\n", (int) getpid()); fclose(f); }
    }
    if (dump) {
        char cwd[4096];
        FILE *f = fopen(dump, "w");
        if (f) {
            int j, c, first = 1;
            fprintf(f, "{\"argv\": [");
            for (j = i; j < argc; j++) { if (!first) fputc(',', f); first = 0; json_str(f, argv[j]); }
            fprintf(f, "], \"cwd\": ");
            json_str(f, getcwd(cwd, sizeof cwd) ? cwd : "?");
            fprintf(f, ", \"X\": ");
            if (getenv("X")) json_str(f, getenv("X")); else fprintf(f, "null");
            fprintf(f, ", \"Y\": ");
            if (getenv("Y")) json_str(f, getenv("Y")); else fprintf(f, "null");
            fprintf(f, ", \"stdin\": \"");
            while ((c = getchar()) != EOF) {
                if (c == '"' || c == '\\') fprintf(f, "\\%c", c);
                else if (c < 0x20) fprintf(f, "\\u%04x", c);
                else fputc(c, f);
            }
            fprintf(f, "\"}\n");
            fclose(f);
        }
    }
    if (chdir_to && chdir(chdir_to) != 0) return 99;
    if (sleep_s > 0) {
        /* sleep in small steps so that an ignored SIGTERM does not cut the sleep short */
        double left = sleep_s;
        while (left > 0) { usleep(100000); left -= 0.1; }
    }
    printf("probe done\n");
    return exit_code;
}
